"""C02 - emitted definitions are well-formed, topologically ordered SCgf v2.

Decided by: SynthGraph.tla (ScgfWhy, EmitEnabled, MustRaise), ScgfOrder.tla (L1 Emit action system, L2 the
library's topological sort refining it, all graphs of N units), TraceScgf.tla (every recorded build: bytes decoded
by the independent reader, recorded emission order, SynthDesc round trip through new_from and _read_stream,
invalid programs must raise)."""
import random
from concurrent.futures import ThreadPoolExecutor

from harness import synthprog as sp
from harness.common import MachineryError


def c02_trace(rec):
    return dict(id=rec['id'], prog=rec['prog'], raised=rec['raised'], err=rec['err'], nbytes=rec['nbytes'],
                sha=rec.get('sha', ''), ref=rec.get('ref', ''),
                parsed=rec['parsed'], created=rec['created'], wf=rec['wf'], wf_lost=rec.get('wf_lost', []),
                desc=rec.get('desc', []))


def signature(why):
    return 'scgf:%s' % why.split(' ')[0][:80]


def nontrivial(prog):
    """has a multi-output unit, a width-first unit, a list argument, a control, an invalid value or > 50 instructions"""
    if prog['ctl'] or len(prog['ins']) > 50:
        return True
    for i in prog['ins']:
        if i['op'] in ('mce', 'bad', 'sinkn') or i['nout'] > 1:
            return True
        if i['cls'] in ('LocalBuf', 'SetBuf', 'ClearBuf', 'FFT', 'IFFT', 'PV_MagSquared', 'RandSeed', 'RandID'):
            return True
    return False


def judge(ctx, recs, origin):
    verdicts = ctx.validate('TraceScgf', 'TraceScgf.cfg', [c02_trace(r) for r in recs], timeout=1500,
                            env={'JAVA_TOOL_OPTIONS': sp.JVM_OPTS})
    for r in recs:
        if nontrivial(r['prog']):
            ctx.nontrivial(r['prog'])
        v = verdicts[r['id']]
        if v is None:
            continue
        why = v[1]
        if why == 'bad-program-shape':
            raise MachineryError('generator produced a program the spec does not accept as a program: %s' % r['prog'])
        small = dict(kind='program', prog=r['prog'], why=why, raised=r['raised'], err=r['err'], msg=r['msg'])
        if len(r['prog']['ins']) <= 40:
            small['units'] = [[u['c'], u['r'], u['sp'], u['ins']] for d in r['parsed']['defs'] for u in d['units']]
            small['created'] = r['created']
            small['wf'] = r['wf']
        ctx.violation(signature(why), '%s: %s (%s %s)' % (origin, why, r['err'], r['msg'][:100]), small)


def name_programs():
    """one tiny definition per name length 0..255 (ASCII, all printable characters used)"""
    out = []
    for n in range(256):
        name = ''.join(chr(33 + (7 * n + k) % 94) for k in range(n))
        out.append(sp.Prog(name, [], [sp.Gen('SinOsc', 2, [sp.C(440), sp.C(0)]), sp.Gen('Out', 2, [sp.C(0), sp.R(1)], 0)]))
    return out


def run(ctx):
    thorough = not ctx.quick
    sfx = '_thorough' if thorough else ''
    # 1. design: the Emit action system, and the library's topological sort as a refinement of it
    r = ctx.model_check('ScgfOrder', 'ScgfOrder_L1%s.cfg' % sfx, require_cover=('Emit',), timeout=1500)
    ctx.expect_ok(r, 'ScgfOrder L1')
    r = ctx.model_check('ScgfOrder', 'ScgfOrder_L2%s.cfg' % sfx, require_cover=('Pop',), timeout=1500)
    ctx.expect_ok(r, 'ScgfOrder L2 refines L1')
    # 2. programs: TLC-enumerated (including rate-invalid ones), simulated long ones, seeded random ones with
    #    width-first / multi-output / list arguments, invalid inputs, every name length, long chains
    with ThreadPoolExecutor(max_workers=5) as ex:
        f1 = ex.submit(lambda: sp.tlc_programs(ctx, 'bad2' if thorough else 'badS', timeout=1500, workers=8,
                                               label='rate-valid and rate-invalid programs'))
        f2 = ex.submit(lambda: sp.tlc_programs(ctx, 'long', simulate='num=%d' % (1500 if thorough else 120), depth=30,
                                               seed=ctx.seed + 3, timeout=900, label='simulated long programs'))
        f3 = ex.submit(lambda: sp.tlc_programs(ctx, 'mo2' if thorough else 'moS', timeout=1500, workers=4,
                                               label='multi-output programs'))
        # output units with channel arrays: every class, every position, flat and nested (valid and invalid)
        f4 = ex.submit(lambda: sp.tlc_programs(ctx, 'arrM' if thorough else 'arrS', timeout=1500, workers=4,
                                               label='output units with channel arrays'))
        # units whose rate requirement covers several inputs: every combination of rates at the checked positions
        f5 = ex.submit(lambda: sp.tlc_programs(ctx, 'nS', timeout=1500, workers=4,
                                               label='units with multi-input rate requirements'))
        progs = f1.result() + f2.result() + f3.result() + f4.result() + f5.result()
    for i, p in enumerate(progs):
        p['name'] = '%s_%d' % (p['name'], i)
    ntlc = len(progs)
    rnd = random.Random(ctx.seed)
    nrand = 6000 if thorough else 1000
    for i in range(nrand):
        progs.append(sp.random_program(rnd, rnd.randint(4, 60), 'r%d' % i, variants=True))
    ninv = 1500 if thorough else 320
    for i in range(ninv):
        progs.append(sp.random_program(rnd, rnd.randint(3, 20), 'bad%d' % i,
                                       bad=rnd.choice(['nan', 'str', 'none', 'empty'])))
    narr = 4000 if thorough else 400
    for i in range(narr):
        progs.append(sp.array_sink_program(rnd, 'arr%d' % i))
    nchk = 4000 if thorough else 500
    for i in range(nchk):
        progs.append(sp.rate_check_program(rnd, 'chk%d' % i, multi_only=(i % 2 == 0)))
    # array-valued controls: few names, many slots, totals across the 255 / 256 boundary (the reader's own limit is on NAMES)
    totals = [2, 16, 17, 64, 254, 255, 256, 257, 300, 512] + [rnd.randint(200, 400) for _ in range(30 if thorough else 6)] \
        + [rnd.randint(2, 40) for _ in range(60 if thorough else 12)]
    for i, tot in enumerate(totals):
        progs.append(sp.array_control_program(rnd, 'actl%d' % i, tot))
    # lagged control-rate parameters across the 16-channel clumps of LagControl
    ltot = [1, 2, 15, 16, 17, 18, 31, 32, 33, 34, 47, 48, 49, 64, 65, 100] + [rnd.randint(1, 80) for _ in range(80 if thorough else 16)]
    for i, tot in enumerate(ltot):
        progs.append(sp.lag_control_program(rnd, 'lagc%d' % i, tot))
    names = name_programs()
    progs += names
    sizes = [300, 450, 600, 800] * 4 if thorough else [120, 200, 300]
    for i, n in enumerate(sizes):
        progs.append(sp.chain_program(rnd, n, 'chain%d' % i))
        progs.append(sp.random_program(rnd, n, 'big%d' % i))
    recs = sp.run_builds(ctx, progs, desc=True)
    judge(ctx, recs, 'generated')
    # 3. concurrent section: two or three threads build different valid programs with forced hand-overs; every
    #    definition emitted under interleaving must be well-formed, ordered, described - and equal to the one built alone
    ncase = 400 if thorough else 64
    cases = []
    nid = len(progs)
    for _ in range(ncase):
        k = rnd.choice([2, 2, 3])
        ps = [sp.random_program(rnd, rnd.randint(6, 30), 'cc%d' % (nid + j), bad=None, variants=False) for j in range(k)]
        cases.append(dict(ids=list(range(nid, nid + k)), progs=ps, at=rnd.randint(1, 12)))
        nid += k
    per = max(1, (len(cases) + 15) // 16)
    outs = ctx.run_drivers('drivers/c02_conc.py', [dict(cases=cases[i:i + per]) for i in range(0, len(cases), per)])
    crecs = [r_ for o in outs for r_ in o['recs']]
    if len(crecs) != nid - len(progs):
        raise MachineryError('concurrent driver returned %d records for %d programs' % (len(crecs), nid - len(progs)))
    judge(ctx, crecs, 'built while another thread was building')
    ctx.cov['concurrent'] = dict(cases=ncase, definitions=len(crecs), raised=sum(r_['raised'] for r_ in crecs))
    big = recs[-2]
    ctx.cov['largest_definition'] = dict(units=len(big['parsed']['defs'][0]['units']) if big['parsed']['defs'] else 0,
                                         constants=len(big['parsed']['defs'][0]['consts']) if big['parsed']['defs'] else 0,
                                         bytes=big['nbytes'])
    ctx.cov['evaluations'] = len(progs)
    ctx.cov['program_sources'] = dict(tlc=ntlc, random=nrand, invalid_inputs=ninv, names=len(names), big=2 * len(sizes),
                               raised=sum(r['raised'] for r in recs))
    s = recs[ntlc + 3]
    ctx.sample(dict(program=s['prog'], raised=s['raised'], units=[[u['c'], u['r'], u['sp'], u['ins']] for d in
                                                                   s['parsed']['defs'] for u in d['units']][:30],
                    created=s['created'][:30], width_first=s['wf'][:30]))
    ctx.cov['exhaustive'] = False
    ctx.cov['rule'] = ('TLC-enumerated programs (slice with rate-invalid programs, multi-output slice), simulated long '
                       'programs, %d seeded random programs of 4-60 instructions with multi-output, width-first and list-'
                       'argument units, %d programs using NaN/text/None/empty-list inputs, one definition per name length '
                       '0..255, chains/random programs up to %d instructions; non-trivial = has a control, multi-output, '
                       'width-first, list-argument or invalid instruction or > 50 instructions'
                       % (nrand, ninv, max(sizes)))
    ctx.assumptions += [
        'the bytes are decoded by harness/scgf.py, an independent reader written from the format description',
        'creation order and width-first membership are read from the SynthDef object when the graph function returns',
        'control defaults are small integers; float32 rounding of arbitrary defaults is not exercised',
        'names are ASCII; definition names longer than 255 bytes are outside the quantifier',
    ]


def replay(ctx, rp):
    prog = rp['replay']['prog']
    recs = sp.run_builds(ctx, [prog], nproc=1, desc=True)
    ctx.cov['evaluations'] = 1
    ctx.sample(dict(program=prog if len(prog['ins']) < 40 else '(large)', raised=recs[0]['raised'], err=recs[0]['err']))
    judge(ctx, recs, 'replayed')


MANIFEST = dict(
    category='model_checking',
    text=("ScgfWhy (SynthGraph.tla) states well-formedness of a version-2 definition over the structure produced by an independent reader (complete parse, counts, index ranges, inputs refer to constants or outputs of strictly earlier units, rates, control-unit ranges, variants); ScgfOrder.tla is the Emit action system (data antecedents and every earlier-created width-first unit first) with the library's topological sort as an L2 refinement, checked by TLC for every graph of 4 (thorough 5) units. TraceScgf.tla validates every real build: bytes well-formed, recorded emission order is a behaviour of Emit, no width-first unit lost, SynthDesc.new_from and SynthDesc._read_stream recover name / control names in slot order / defaults / rates / gate flag / bus units (class, rate, channels, starting channel), and programs the spec marks invalid (rate mismatch at a unit that cannot be dropped, NaN / text / None / empty list input) raise and give no bytes."),
    note=('Programs: TLC-enumerated slices incl. rate-invalid ones, simulated long programs, seeded random programs with multi-output, width-first (LocalBuf/SetBuf/ClearBuf/FFT/PV/IFFT/RandSeed/RandID) and list-argument units, every name length 0..255, chains up to 300 (thorough 800) instructions. Not decided: float32 rounding of arbitrary defaults, variants beyond their size, non-ASCII names, names > 255. Creation order is read from the SynthDef object when the graph function returns.'),
    technique='TLA+ well-formedness predicate + Emit action system (L1) with the topological sort as L2 refinement, checked by '
              'TLC; batch validation of decoded bytes, emission order and SynthDesc round trips of real builds',
    design_ref='DESIGN.md section 3 / C02',
    engine='SynthGraph',
)
