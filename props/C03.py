"""C03 - multichannel expansion follows the wrap-and-zip law everywhere.

Decided by: spec/MCE.tla.  TLC (a) checks on every generated argument tuple that the transcriptions
of SynthObject._multi_new, utils.list_binop/list_unop, ChannelList._multichannel_perform and
ChannelList.madd yield exactly Expand(args) (L2 => L1) plus the length/depth/leaf/shape theorems,
(b) prints every argument tuple (templates with distinguishable atoms: numbers, audio/control
units, opaque tuples, literal zeros; flat, unequal-length, nested lists) with its expected tree.
The driver performs, inside a SynthDef build, the call with those arguments and exactly the
single-channel calls the expected tree names, for constructors derived mechanically from the
source (classes using the generic _multi_new/_new1/_init_ugen whose constructor is one
cls._multi_new call), all AbstractObject operators on ChannelList, the ChannelList convenience
methods and the output units.  TraceMCE.tla decides tree = Expand, unit counts, directness and
the output flattening / silence rule."""
import json
import os
import random
import shutil
import threading
from concurrent.futures import ThreadPoolExecutor

from harness import tlc
from harness.common import MachineryError, canon

DRIVER = 'drivers/c03_mce.py'
_lock = threading.Lock()

# ChannelList convenience methods: name -> (required arguments, optional arguments)
OUTS = [dict(kind='out', mod='sc3.synth.ugens.inout', cls='Out', sel='ar', rate='audio', nfixed=1),
        dict(kind='out', mod='sc3.synth.ugens.inout', cls='Out', sel='kr', rate='control', nfixed=1),
        dict(kind='out', mod='sc3.synth.ugens.inout', cls='ReplaceOut', sel='ar', rate='audio', nfixed=1),
        dict(kind='out', mod='sc3.synth.ugens.inout', cls='OffsetOut', sel='ar', rate='audio', nfixed=1),
        dict(kind='out', mod='sc3.synth.ugens.inout', cls='LocalOut', sel='ar', rate='audio', nfixed=0),
        dict(kind='out', mod='sc3.synth.ugens.inout', cls='XOut', sel='ar', rate='audio', nfixed=2),
        dict(kind='out', mod='sc3.synth.ugens.inout', cls='XOut', sel='kr', rate='control', nfixed=2)]


def emitted(r):
    return [json.loads(tlc.parse_value(line)[1]) for line in r.output.splitlines() if line.startswith('<<"CASE"')]


def model_check_in(ctx, module, cfg, cover, label):
    """ctx.model_check with a private TLC metadir (parallel runs of one module; harness.common is shared)"""
    wd = os.path.join(ctx.work, 'mc_' + cfg.replace('.', '_'))
    r = tlc.run(module, cfg, wd, workers=4, timeout=1500, coverage=True)
    shutil.rmtree(wd, ignore_errors=True)
    run_ = dict(module=module, cfg=cfg, label=label, **r.summary())
    run_['actions_taken'] = {k: v[0] for k, v in sorted(r.coverage.items()) if k in cover}
    with _lock:
        ctx.cov['model_runs'].append(run_)
        ctx.cov['states'] += r.distinct
        ctx.cov['transitions'] += r.generated
    for a in cover:
        if r.coverage.get(a, (0, 0))[1] == 0:
            raise MachineryError('vacuity: action %s never taken in %s/%s' % (a, module, cfg))
    if not r.ok:
        raise MachineryError('%s/%s: model run failed: %s\n%s' % (module, cfg, r.violated, r.output[-3000:]))
    return r


def is_list(t):
    return t['k'] == 'l'


def depth(t):
    return 1 + max([depth(c) for c in t['v']] or [0]) if is_list(t) else 0


def nontrivial(sh):
    """two list arguments of different lengths, or a nested list, or a list next to an opaque tuple"""
    ls = [a for a in sh['args'] if is_list(a)]
    return len({len(a['v']) for a in ls}) >= 2 or any(depth(a) >= 2 for a in ls) \
        or (bool(ls) and 't' in sh['kinds'])


def kinds_in(sh, j):
    def atoms(t):
        return [x for c in t['v'] for x in atoms(c)] if is_list(t) else [t['a']]
    return {sh['kinds'][a - 1] for a in atoms(sh['args'][j])}


def run_cases(ctx, cases):
    n = len(cases)
    per = max(1, (n + 15) // 16)
    outs = ctx.run_drivers(DRIVER, [dict(mode='run', cases=cases[i:i + per]) for i in range(0, n, per)], mode='nrt')
    traces = [t for o in outs for t in o['traces']]
    if len(traces) != n:
        raise MachineryError('driver returned %d traces for %d cases' % (len(traces), n))
    return traces


def tname(t):
    return t['expr'] if t['kind'] == 'expr' else '%s.%s' % (t['cls'], t['sel'])


def judge(ctx, cases, traces):
    verdicts = ctx.validate('TraceMCE', 'TraceMCE.cfg', traces)
    by_id = {c['id']: c for c in cases}
    for t in traces:
        v = verdicts[t['id']]
        if v is None:
            continue
        at, why = v
        case = by_id[t['id']]
        what = {'law': 'returned tree is not Expand(args) of the single-channel results',
                'count': 'units created differ from one per combination',
                'args_mutated': 'the call changed the caller\'s argument objects',
                'args_mutated_by_second_call': 'the repeated call changed the caller\'s argument objects',
                'op_direct': 'a number/unit combination is not the operator unit on (x, y) in operand order',
                'direct': 'a directly delegating constructor did not create exactly cls.rate(inputs) per combination',
                'out_flat': 'output units did not receive the flattened channel array',
                'silence': 'literal zeros were not replaced by one audio-rate silence',
                'raised': 'the output call raised'}.get(why, why)
        e = t['ev'][at - 1]
        again = ' (same call repeated with the same argument objects)' if at == 2 else ''
        ctx.violation('mce:%s%s:%s' % (why, ':again' if at == 2 and not why.startswith('args_') else '', tname(case['target'])),
                      '%s [%s] for %s%s' % (what, why, tname(case['target']), again),
                      dict(kind='case', case=case, why=why, event=at,
                           observed=dict(res=e['res'], n=e['n'], units=e['units'][:12], after=e['after'],
                                         tab=t['ev'][0]['tab'][:12])))


def methods_of_channel_list(ctx):
    """ChannelList methods whose body is one self._multichannel_perform(name, own parameters) call
    (read from the source by the driver's process-independent AST walk here: pure text analysis)"""
    import ast
    import textwrap
    src = open(os.path.join(os.environ.get('SC3_REPO', '/repo'), 'sc3/synth/ugen.py')).read()
    mod = ast.parse(src)
    out = []
    for cls in mod.body:
        if isinstance(cls, ast.ClassDef) and cls.name == 'ChannelList':
            for f in cls.body:
                if not isinstance(f, ast.FunctionDef):
                    continue
                body = [s for s in f.body if not (isinstance(s, ast.Expr) and isinstance(s.value, ast.Constant))]
                if len(body) != 1 or not isinstance(body[0], ast.Return) or not isinstance(body[0].value, ast.Call):
                    continue
                c = body[0].value
                if isinstance(c.func, ast.Attribute) and c.func.attr == '_multichannel_perform' \
                        and isinstance(c.args[0], ast.Constant) and c.args[0].value == f.name:
                    params = [a.arg for a in f.args.args[1:]]
                    if [a.id for a in c.args[1:] if isinstance(a, ast.Name)] != params:
                        continue
                    out.append((f.name, len(params) - len(f.args.defaults), len(params)))
                elif f.name == 'madd':
                    out.append(('madd', 0, 2))
    return out


def run(ctx):
    thorough = not ctx.quick
    rnd = random.Random(ctx.seed)
    cover = ('AddArg', 'Emit')
    cfgs = dict(q='MCE_t.cfg' if thorough else 'MCE_q.cfg', recv='MCE_recv_t.cfg' if thorough else 'MCE_recv.cfg',
                out='MCE_out_t.cfg' if thorough else 'MCE_out.cfg', bin='MCE_bin.cfg')
    with ThreadPoolExecutor(max_workers=4) as ex:
        rs = dict(zip(cfgs, ex.map(lambda c: model_check_in(ctx, 'MCE', c, cover, 'L2=>L1 + generate ' + c), cfgs.values())))
    shapes = {k: sorted(emitted(r), key=canon) for k, r in rs.items()}
    for k, v in shapes.items():
        if not v:
            raise MachineryError('no argument tuples emitted by ' + cfgs[k])
    tg = ctx.run_driver(DRIVER, dict(mode='targets'), mode='nrt')
    ctors = sorted(tg['ctors'], key=lambda t: (t['mod'], t['cls'], t['sel']))
    if len(ctors) < 100:
        raise MachineryError('only %d directly delegating constructors derived' % len(ctors))
    cases = []

    def add(target, sh, lt):
        cases.append(dict(id=len(cases), target=target, lt=lt, args=sh['args'], kinds=sh['kinds'], exp=sh['exp'],
                          rows=sh['rows']))
        if nontrivial(sh):
            ctx.nontrivial([tname(target), sh['args']])

    # constructors
    if thorough:
        chosen = ctors
    else:
        step = max(1, len(ctors) // 12)
        chosen = ctors[(ctx.seed % step)::step][:12]
    for t in chosen:
        fit = [sh for sh in shapes['q'] if t['nreq'] <= len(sh['args']) <= len(t['params'])]
        if thorough and len(fit) > 1000:
            fit = [sh for sh in fit if len(sh['args']) < 3] + rnd.sample([sh for sh in fit if len(sh['args']) == 3], 800)
        for i, sh in enumerate(fit):
            add(t, sh, 'cl' if i % 3 == 2 else 'list')
    # operators on ChannelList: receiver = first argument (a list), no opaque tuples as operands
    dunder = [b for b in tg['binops'] if b['src'].startswith('__')]
    named = [b for b in tg['binops'] if not b['src'].startswith('__')]
    un_d = [u for u in tg['unops'] if u['src'].startswith('__')]
    un_n = [u for u in tg['unops'] if not u['src'].startswith('__')]
    if not thorough:    # a rotating part of the generic ones, all of those UGen or Python treat specially
        named = [b for b in named if b['special']] + [b for b in named if not b['special']][(ctx.seed % 4)::4]
        un_n = [u for u in un_n if u['special']] + [u for u in un_n if not u['special']][(ctx.seed % 6)::6]
    recv2 = [sh for sh in shapes['recv'] if len(sh['args']) == 2]
    recv1 = [sh for sh in shapes['recv'] if len(sh['args']) == 1]
    mixed2 = [sh for sh in shapes['q'] if len(sh['args']) == 2 and is_list(sh['args'][0]) and 't' not in sh['kinds']]
    mixed1 = [sh for sh in shapes['q'] if len(sh['args']) == 1 and is_list(sh['args'][0]) and 't' not in sh['kinds']]
    for b in dunder:
        for sh in recv2 + mixed2:
            add(b, sh, 'cl')
    for b in named:
        for sh in recv2:
            add(b, sh, 'cl')
    # binary operators with plain-number channels next to units, both orders: (list, x), (x, list), (list, list);
    # a plain number cannot be the receiver of a named operator, a plain list cannot follow a plain number
    for sh in shapes['bin']:
        if len(sh['args']) != 2 or not any(is_list(a) for a in sh['args']):
            continue
        first = sh['args'][0]
        first_kind = None if is_list(first) else sh['kinds'][first['a'] - 1]
        for b in dunder + named:
            if b.get('named') and first_kind in ('n', 'z', 'b'):
                continue
            add(b, sh, 'cl')
            if first_kind in ('ua', 'uk'):
                add(b, sh, 'list')
    for u in un_d:
        for sh in recv1 + mixed1:
            add(u, sh, 'cl')
    for u in un_n:
        for sh in recv1:
            add(u, sh, 'cl')
    # convenience methods
    meths = methods_of_channel_list(ctx)
    if len(meths) < 20:
        raise MachineryError('only %d ChannelList convenience methods found' % len(meths))
    for name, nreq, nmax in meths:
        for sh in shapes['recv']:
            k = len(sh['args']) - 1
            if k > nmax or (nreq <= 2 and k < nreq) or (nreq > 2 and k != 2):
                continue
            # methods with more than two required arguments get constants for the rest
            extra = ['%d.5' % (i + 2) for i in range(max(0, nreq - k))]
            add(dict(kind='expr', level='one', expr='a.%s(%s)' % (name, ', '.join(list('bcdefg'[:k]) + extra)), src=name), sh,
                'cl' if len(cases) % 2 else 'list')
    # the same methods on channel lists with plain-number channels next to units (one extra argument, the rest constants)
    for name, nreq, nmax in meths:
        if nmax < 1:
            continue
        extra = ['%d.5' % (i + 2) for i in range(max(0, nreq - 1))]
        for sh in shapes['bin']:
            if len(sh['args']) == 2 and is_list(sh['args'][0]):
                add(dict(kind='expr', level='one', expr='a.%s(%s)' % (name, ', '.join(['b'] + extra)), src=name), sh,
                    'cl' if len(cases) % 2 else 'list')
    # output units
    for t in OUTS:
        for sh in shapes['out']:
            if len(sh['args']) == t['nfixed'] + 1:
                add(t, sh, 'list' if len(cases) % 2 else 'cl')
    # in batches: the projected traces of a thorough run do not fit in memory at once
    nsingle, samples, B = 0, [], 30000
    for i in range(0, len(cases), B):
        traces = run_cases(ctx, cases[i:i + B])
        judge(ctx, cases[i:i + B], traces)
        nsingle += sum(len(t['ev'][0]['tab']) for t in traces)
        samples += [traces[len(traces) // 3], traces[-1]]
        del traces
    kinds = {}
    for c in cases:
        kinds[c['target']['kind']] = kinds.get(c['target']['kind'], 0) + 1
    ctx.cov['evaluations'] = len(cases)
    ctx.cov['cases_per_kind'] = kinds
    ctx.cov['constructors_derived'] = len(ctors)
    ctx.cov['constructors_run'] = len(chosen)
    ctx.cov['operators_run'] = len(dunder) + len(named) + len(un_d) + len(un_n)
    ctx.cov['methods_run'] = [m[0] for m in meths]
    ctx.cov['single_channel_calls'] = nsingle
    for t in (samples[0], samples[-1]):
        ctx.sample(dict(target=t['target']['cls'] or t['target']['expr'], args=canon(t['args'])[:400],
                        result=canon(t['ev'][0]['res'])[:600], units=t['ev'][0]['n']))
    ctx.cov['rule'] = ('every argument tuple TLC generates (arity 1-3 over templates %s) x every target that accepts the '
                       'arity: %d of %d mechanically derived constructors, %d operators, %d convenience methods, 7 output '
                       'constructors; non-trivial = two lists of different lengths, a nested list, or a list next to an '
                       'opaque tuple' % (sorted(cfgs.values()), len(chosen), len(ctors), ctx.cov['operators_run'], len(meths)))
    ctx.cov['exhaustive'] = True
    ctx.assumptions += ['a list is a Python list or a ChannelList; empty lists are outside the quantifier',
                        'receivers of operators/methods are ChannelLists at every level; for a plain-number channel the '
                        'element call of a named operator is the method\'s own selector applied to (number, x) (bi.round, '
                        'operator.and_, ...) and of a convenience method the library\'s number-side method (UGenScalar); '
                        'operand order and opcode of number/unit combinations are decided by op_direct, not by these',
                        'opaque tuples are given to constructors and method arguments, not as arithmetic operands '
                        '(utils.list_binop deliberately zips tuples)',
                        'values are compared through a canonical text (class.rate#special(inputs...)) produced by the driver']


def replay(ctx, rp):
    case = dict(rp['replay']['case'], id=0)
    traces = run_cases(ctx, [case])
    judge(ctx, [case], traces)
    ctx.cov['evaluations'] = 1
    ctx.sample(dict(target=tname(case['target']), args=canon(case['args'])[:400]))


MANIFEST = dict(
    category='model_checking',
    text=('MCE.tla states the wrap-and-zip law as Expand over trees (atoms opaque, lists expanded to the longest, element i '
          'modulo length, recursive) and TLC proves on every generated argument tuple that the transcribed algorithms of '
          '_multi_new, list_binop/list_unop, _multichannel_perform and ChannelList.madd equal it. The same tuples are run '
          'on the real code: the call with list-shaped arguments and each single-channel call named by the expected tree; '
          'TLC validates returned tree = Expand of the measured single-channel results, units created = one per '
          'combination, directly delegating constructors produce exactly cls.rate(inputs), and output units receive the '
          'flattened array with zeros replaced by one audio-rate silence.'),
    note=('Decided for the generated shapes (depth <= 3, lengths 1-3, arity <= 3). Not decided: empty lists, classes with '
          'bespoke _new1/_init_ugen argument reshuffling, tuples as arithmetic operands, named operators on plain-number '
          'elements, what the server does with the units.'),
    technique='TLA+ law + L2 transcriptions checked by TLC; TLC-generated argument tuples replayed differentially on real constructors/operators/methods; batch trace validation',
    design_ref='DESIGN.md section 3 / C03',
    engine='MCE',
)
