"""Shared machinery of C05 / C07 / C10: routine-program generator, runs in NRT and RT processes,
validation of the recorded executions against the LogicalTime reference machine by TLC."""
import random

from harness.common import MachineryError

DRIVER = 'drivers/c05_time.py'
TU = 65536
DELTAS = [0, TU // 8, TU // 4, TU // 2, TU, TU, 2 * TU]
LATS = [(0, 0), (TU // 8, 0), (TU // 4, 0), (TU, 0), (0, 1), (-TU // 4, 0)]     # (value, kind) kind 1 = None
TEMPI = [[1, 2], [1, 1], [2, 1], [4, 1]]


def I(op, a=0, b=0, c='', s='', nk=0, na=0):
    return dict(op=op, a=a, b=b, c=c, s=s, nk=nk, na=na)


def gen_program(rnd, pid, cls='A', nrt_only=False, feats=('send', 'tempo', 'spawn', 'raise')):
    """cls A: cross-clock spawns and tempo changes on any clock (validated per mode against the machine);
    cls B: logically race-free by construction (tempo/pause/resume only inside one clock, children inherit the
    clock) so that RT and NRT must agree observation by observation."""
    clocks = {}
    if rnd.random() < 0.75:
        clocks['t1'] = rnd.choice(TEMPI)
    if rnd.random() < 0.3:
        clocks['t2'] = rnd.choice(TEMPI)
    cnames = ['sys'] + list(clocks) * 2 + (['app'] if nrt_only else [])
    n = rnd.randint(1, 6)
    names = ['r%d' % i for i in range(n)]
    nroot = rnd.randint(1, min(3, n))
    roots, kids = names[:nroot], names[nroot:]
    home = {r: rnd.choice(cnames) for r in roots}
    main = [I('P', s=r, c=home[r]) for r in roots]
    bodies = {r: [] for r in names}
    unplayed = list(kids)
    tagn = [0]
    seedn = [0]

    def tag():
        tagn[0] += 1
        return '/m%d' % tagn[0]

    def send():
        lat, kind = rnd.choice(LATS)
        if rnd.random() < 0.2:
            nl, nkind = rnd.choice(LATS)
            if nkind != 1 and nl >= 0 and rnd.random() < 0.5:
                # three levels: a bundle inside the nested bundle, after it (3) or before it (4: must be refused)
                return I('S', a=lat, b=kind, s=tag(), nk=rnd.choice([3, 3, 4]), na=nl)
            return I('S', a=lat, b=kind, s=tag(), nk=2 if nkind == 1 else 1, na=nl)
        if rnd.random() < 0.15:
            return I('M', s=tag())
        return I('S', a=lat, b=kind, s=tag())

    order = list(roots)
    tempo_owner = {}
    cond_home = {}
    tb_used = set()
    while order:
        r = order.pop(0)
        c = home[r]
        body = bodies[r]
        seeded = False
        for _ in range(rnd.randint(1, 7)):
            x = rnd.random()
            if x < 0.45:
                # b: how the number is written (0 float, 1 float subclass, 2 int subclass, 3 int) - same number
                body.append(I('Y', a=rnd.choice(DELTAS), b=rnd.choice([0, 0, 0, 1, 2, 3])))
            elif x < 0.6 and 'send' in feats:
                body.append(send())
            elif x < 0.7 and unplayed and 'spawn' in feats:
                k = unplayed.pop(0)
                if cls == 'A' and rnd.random() < 0.6:
                    home[k] = rnd.choice(cnames)
                    if 'quant' in feats and home[k] in clocks and rnd.random() < 0.5:
                        q = rnd.choice([TU, 2 * TU, 4 * TU, TU // 2])
                        body.append(I('P', s=k, c=home[k], a=q, b=rnd.choice([0, 0, TU // 2, -TU // 2, q // 2]) if q >= TU else 0))
                    else:
                        body.append(I('P', s=k, c=home[k]))
                else:
                    home[k] = c
                    body.append(I('P', s=k, c=''))
                order.append(k)
            elif x < 0.78 and clocks and 'tempo' in feats:
                kind = rnd.random()
                if cls == 'A':
                    tc = rnd.choice(list(clocks))
                    if kind < 0.15 and nrt_only:
                        body.append(I('ET', c=tc, **dict(zip('ab', rnd.choice(TEMPI)))))
                    elif kind < 0.3 and tc == c and tc not in tb_used:
                        # one backward jump per clock: setting beats forward makes overdue tasks run at once with
                        # logical times in the past (documented), which is outside these properties
                        tb_used.add(tc)
                        body.append(I('TB', c=tc, a=rnd.choice([0, 0, -TU, -4 * TU, -TU // 2])))
                    else:
                        body.append(I('T', c=tc, **dict(zip('ab', rnd.choice(TEMPI)))))
                elif c in clocks and tempo_owner.setdefault(c, r) == r:
                    if kind < 0.2 and c not in tb_used:
                        tb_used.add(c)
                        body.append(I('TB', c=c, a=rnd.choice([0, 0, -TU, -4 * TU, -TU // 2])))
                    else:
                        body.append(I('T', c=c, **dict(zip('ab', rnd.choice(TEMPI)))))
            elif x < 0.8 and 'stop' in feats:
                cands = [o for o in roots if o != r and home.get(o) == c]
                if cands:
                    body.append(I('ST', s=rnd.choice(cands)))
            elif x < 0.84 and 'pause' in feats:
                # pause / resume a routine living on the same clock that has been played already
                # only routines started by the main thread: they are certainly playing (on this clock) by then;
                # pausing a routine that has not been played yet would resume it on SystemClock (its default)
                cands = [o for o in roots if o != r and home.get(o) == c]
                if cands:
                    o = rnd.choice(cands)
                    body.append(I('X', s=o))
                    if rnd.random() < 0.8:
                        body.append(I('Y', a=rnd.choice(DELTAS[1:])))
                        body.append(I('Z', s=o))
            elif x < 0.9 and 'rand' in feats:
                if not seeded and rnd.random() < 0.5:
                    seedn[0] += 1
                    sd = 1000 * (pid % 1000) + seedn[0]
                    body.append(I('K', a=sd, s=str(sd)))
                    seeded = True
                body.append(I('D'))
            elif x < 0.96 and 'cond' in feats:
                cn = rnd.choice(['c1', 'c2'])
                if cls == 'B':
                    # race-free: a condition is used inside one clock only
                    if cond_home.setdefault(cn, c) != c:
                        continue
                body.append(I('W', s=cn) if rnd.random() < 0.5 else I('G', s=cn, a=rnd.choice([1, 1, 0])))
            elif x < 0.98 and 'raise' in feats:
                body.append(I('E'))
                break
    for k in unplayed:          # never played: drop
        del bodies[k]
    funcs = []
    if 'func' in feats:
        # plain functions scheduled on a clock from a routine (or the main thread): inside them the current thread is the
        # main one, so what they send counts as sent "outside routines"
        for k in list(bodies):
            if k not in roots and rnd.random() < 0.35 and all(i['op'] in ('S', 'M', 'Y') for i in bodies[k]):
                bodies[k] = [i for i in bodies[k] if i['op'] in ('S', 'M')]
                funcs.append(k)
    if 'yr' in feats:
        for k, b in bodies.items():
            if k not in funcs and b and rnd.random() < 0.2:
                b.insert(rnd.randint(1, len(b)), I('YR', a=rnd.choice(DELTAS)))
    return fix_seed_inheritance(dict(id=pid, clocks=clocks, routines=bodies, main=main, funcs=funcs,
                                     tail=rnd.choice([0, TU, TU // 2]), cls=cls))


def gen_user_program(rnd, pid):
    """RT only: plain threads act WHILE clock threads are inside routine bodies ("points": a preemption point before
    every instruction of a body): they send bundles (U) and play a routine without naming a clock (UP)."""
    p = gen_program(rnd, pid, cls='A', feats=('send', 'tempo', 'spawn', 'tempo'))
    p['points'] = True
    offs = [0, TU // 8, TU // 4, TU // 2, TU, 3 * TU // 2, 2 * TU]
    body = []
    for _ in range(rnd.randint(1, 4)):
        if rnd.random() < 0.6:
            body.append(I('Y', a=rnd.choice(DELTAS)))
        else:
            lat, kind = rnd.choice(LATS)
            body.append(I('S', a=lat, b=kind, s='/ru%d' % len(body)))
    p['routines']['ru'] = body
    ops = [I('UP', s='ru', c=str(rnd.choice(offs)))]
    for k in range(rnd.randint(1, 3)):
        lat, kind = rnd.choice(LATS)
        ops.append(I('U', a=lat, b=kind, s='/u%d' % k, c=str(rnd.choice(offs))))
    rnd.shuffle(ops)
    p['main'] += ops
    return p


def user_programs(ctx, n, base_id, sigf, mine, lenient=False):
    """run the user-thread family in RT and report what belongs to the calling property"""
    import random
    rnd = random.Random(ctx.seed + 4242)
    progs = [dict(gen_user_program(rnd, base_id + i), strategy=dict(kind='random', seed=ctx.seed * 31 + i, p_stay=rnd.choice([0.0, 0.5])))
             for i in range(n)]
    tr = run_mode(ctx, progs, 'rt')
    for t in tr:
        t['id'] += 20_000_000
        t['lenient'] = lenient
    v = validate(ctx, tr)
    ctx.cov['evaluations'] += len(tr)
    ctx.cov['user_thread_programs'] = len(tr)
    inside = 0
    for t in tr:
        if any(e['k'] == 'ubndl' and e.get('r2') for e in t['ev']) or any(e['k'] == 'uplay' for e in t['ev']):
            inside += 1
            ctx.nontrivial(['user', t['prog']['routines'], t['prog']['main']])
        r = v[t['id']]
        if r is None:
            continue
        at, why = r
        if why in mine:
            ctx.violation(sigf('rt', t, at, why),
                          'RT execution with plain threads acting while routines run deviates from the logical-time reference (%s) at event %d' % (why, at),
                          dict(kind='time-program', mode='rt', program=t['prog'], rejected_at=at, why=why, events=t['ev'][:at + 1]))
    ctx.cov['user_thread_programs_acting_inside_a_routine'] = inside
    return tr, v


def gen_rand_program(rnd, pid):
    """random-stream isolation and inheritance: a seeded parent draws, creates children that inherit its
    generator or get their own seed (set by themselves or by the parent, as Pseed does), everybody keeps drawing"""
    clocks = {'t1': rnd.choice(TEMPI)} if rnd.random() < 0.4 else {}
    c0 = rnd.choice(['sys'] + list(clocks))
    n = rnd.randint(2, 4)
    names = ['r%d' % i for i in range(n)]
    bodies = {r: [] for r in names}
    seedn = [0]

    def seed():
        seedn[0] += 1
        return 1000 * (pid % 1000) + 500 + seedn[0]

    def draws(b):
        for _ in range(rnd.randint(1, 3)):
            b.append(I('D'))
    root = bodies['r0']
    sd = seed()
    root.append(I('K', a=sd, s=str(sd)))
    draws(root)
    for k in names[1:]:
        parent = bodies[rnd.choice(names[:names.index(k)])]
        kb = bodies[k]
        mode = rnd.choice(['inherit', 'self', 'parent'])
        if mode == 'parent':
            sd = seed()
            parent.append(I('KC', c=k, a=sd, s=str(sd)))
        parent.append(I('P', s=k, c=''))
        if rnd.random() < 0.5:
            parent.append(I('Y', a=rnd.choice(DELTAS)))
        draws(parent)
        if mode == 'self':
            if rnd.random() < 0.5:
                draws(kb)
            sd = seed()
            kb.append(I('K', a=sd, s=str(sd)))
        draws(kb)
        if rnd.random() < 0.6:
            kb.append(I('Y', a=rnd.choice(DELTAS)))
            draws(kb)
    for b in bodies.values():
        if rnd.random() < 0.5:
            b.append(I('Y', a=rnd.choice(DELTAS)))
            draws(b)
    return dict(id=pid, clocks=clocks, routines=bodies, main=[I('P', s='r0', c=c0)], tail=0, cls='B', funcs=[])


def gen_tie_program(rnd, pid):
    """ties: several routines of one clock pending at the SAME beat, one of them re-scheduled while pending
    (pause + resume moves it behind the others), then the queue is re-timed by a tempo change, and bundles sent
    at equal times.  The order they wake in must be (time, most recent scheduling) - C09 through its consumers."""
    tc = rnd.random() < 0.8
    clocks = {'t1': rnd.choice(TEMPI)} if tc else {}
    c = 't1' if tc else 'sys'
    k = rnd.randint(2, 4)
    names = ['r%d' % i for i in range(k + 1)]          # r0 = the director, the others tie
    d = rnd.choice([TU // 2, TU, 2 * TU])
    bodies = {}
    tag = [0]

    def send():
        tag[0] += 1
        return I('S', a=rnd.choice([0, TU // 4, TU]), b=0, s='/t%d' % tag[0])
    for r in names[1:]:
        b = [I('Y', a=d)]
        if rnd.random() < 0.6:
            b.append(send())
        b.append(I('Y', a=rnd.choice([0, d, TU // 4])))
        if rnd.random() < 0.5:
            b.append(send())
        bodies[r] = b
    director = [I('Y', a=d)]
    victims = rnd.sample(names[1:], rnd.randint(1, min(2, k)))
    for v in victims:
        director += [I('X', s=v), I('Z', s=v)]
    if tc and rnd.random() < 0.8:
        director.append(I('T', c='t1', **dict(zip('ab', rnd.choice(TEMPI)))))
    if rnd.random() < 0.5:
        director.append(send())
    director.append(I('Y', a=rnd.choice([0, TU // 4])))
    if tc and rnd.random() < 0.4:
        director.append(I('T', c='t1', **dict(zip('ab', rnd.choice(TEMPI)))))
    bodies['r0'] = director
    order = list(names)
    if rnd.random() < 0.5:       # the director is not always the first one scheduled
        order = names[1:] + ['r0'] if rnd.random() < 0.5 else order
    return dict(id=pid, clocks=clocks, routines=bodies, main=[I('P', s=r, c=c) for r in order], tail=0, cls='B', funcs=[])


def fix_seed_inheritance(prog):
    """D instructions are only meaningful under a seeded generator: drop draws that would use the unseeded
    main generator (a routine inherits the generator of the routine that played it, at that moment)."""
    seeded_at = {}     # routine -> index of its K instruction
    gen = {}           # routine -> True if it starts with a seeded generator

    def walk(r, has):
        gen[r] = has
        body = prog['routines'][r]
        cur = has
        keep = []
        for i in body:
            if i['op'] == 'K':
                cur = True
            if i['op'] == 'D' and not cur:
                continue
            keep.append(i)
            if i['op'] == 'P' and i['s'] in prog['routines'] and i['s'] not in gen:
                walk(i['s'], cur)
        prog['routines'][r] = keep
    for i in prog['main']:
        if i['op'] == 'P':
            walk(i['s'], False)
    return prog


def run_mode(ctx, progs, mode, nproc=16, hashseed='0'):
    traces = []
    per = max(1, (len(progs) + nproc - 1) // nproc)
    todo = [progs[i:i + per] for i in range(0, len(progs), per)]
    while todo:
        outs = ctx.run_drivers(DRIVER, [dict(programs=b) for b in todo], nproc=nproc, mode=mode, timeout=1500,
                               hashseed=hashseed)
        nxt = []
        for b, o in zip(todo, outs):
            traces += o['traces']
            if o.get('remaining'):
                rem = set(o['remaining'])
                nxt.append([p for p in b if p['id'] in rem])
        todo = nxt
    return traces


def strip(tr):
    t = dict(tr)
    t['prog'] = {k: v for k, v in tr['prog'].items() if k in ('clocks', 'routines', 'main', 'funcs')}
    t['prog'].setdefault('funcs', [])
    t['lenient'] = bool(tr.get('lenient', False))
    for k in ('broken', 'rawsha'):
        t.pop(k, None)
    return t


def validate(ctx, traces):
    """{id: None | (index, why)}; executions whose times are finer than the trace unit (2^-16) cannot be written
    down exactly: they are skipped and counted, and too many of them is a machinery error"""
    skip = {t['id'] for t in traces if t['ev'] and t['ev'][0]['k'] == 'nondyadic'}
    v = ctx.validate('TraceTime', 'TraceTime.cfg', [strip(t) for t in traces if t['id'] not in skip], timeout=1500)
    for t in traces:
        if t['id'] in skip:
            v[t['id']] = None
            continue
        r = v[t['id']]
        if r is not None and r[1] == 'bad-instruction':
            raise MachineryError('trace %s: %s' % (t['id'], r))
        if r is not None and r[1] == 'nondyadic':
            skip.add(t['id'])
            v[t['id']] = None
    ctx.cov['executions_skipped_finer_than_trace_unit'] = ctx.cov.get('executions_skipped_finer_than_trace_unit', 0) + len(skip)
    if len(skip) > max(3, len(traces) // 20):
        raise MachineryError('too many executions with times finer than the trace unit: %d of %d' % (len(skip), len(traces)))
    return v


def nontrivial(prog):
    """program with a tempo change, a cross-clock spawn or a nested/None-latency send"""
    for body in prog['routines'].values():
        for i in body:
            if i['op'] in ('T', 'ET', 'TB', 'X', 'K', 'KC', 'W', 'ST') or (i['op'] == 'P' and i['a']) or (i['op'] == 'P' and i['c']) or (i['op'] == 'S' and (i['nk'] or i['b'])):
                return True
    return False
