"""C19 - envelopes encode to the server format and evaluate consistently.

Decided by: Env.tla (server array format, shape numbers, documented constructors, piecewise
evaluation and its laws) model-checked by TLC over every envelope the constructors build from
small constant sets; binding C->S: exhaustively enumerated and seeded random envelopes built
with the real Env (all constructors), their _envgen_format(), the EnvGen inputs decoded from
SynthDef bytes and _at(t) at breakpoints / inside / outside, validated by TraceEnv.tla; binding
S->C: envelopes and values simulated by TLC replayed on the real class."""
import itertools
import random
import time

from harness.common import MachineryError

DRIVER = 'drivers/c19_env.py'
Z, ONE = [0, 1], [1, 1]
NAMES = ['step', 'lin', 'linear', 'exp', 'exponential', 'sin', 'sine', 'wel', 'welch', 'sqr', 'squared',
         'cub', 'cubed', 'hold']


def cv(nm):
    return {'nm': nm, 'v': Z}


def cnum(n, d=1):
    return {'nm': '#', 'v': [n, d]}


ALL_CURVES = [cv(n) for n in NAMES] + [cnum(-4), cnum(0), cnum(5, 2), cnum(1, 8), cv('foo')]
LIN = cv('lin')


def case(c, **kw):
    d = dict(c=c, lv=[], tm=[], cv=[LIN], rel=[], loop=[], off=Z, p=[], pts=[], fl=0, ev=[])
    d.update(kw)
    return d


# ------------------------------------------------------------------ what to observe
def ticks(r):
    assert (r[0] * 64) % r[1] == 0
    return r[0] * 64 // r[1]


def on_lattice(r):
    return (r[0] * 64) % r[1] == 0


DENSE = [True]


def queries(times_ticks, off_ticks, rnd=None):
    """breakpoints, points inside every segment, before the start and after the end (ticks of 1/64 s)"""
    qs = {-8, 0}
    b = 0
    for d in times_ticks:
        qs.add(b)
        if d > 0:
            qs.update({b + d // 2, b + d - 1})
            if DENSE[0]:
                qs.update({b + d // 4, b + 1})
            if rnd:
                qs.add(b + rnd.randrange(d))
        b += d
    qs.update({b, b + 64})
    if DENSE[0]:
        qs.add(b + 1)
    return sorted(q + off_ticks for q in qs)


def with_events(c, seg_times, ugen=False, at=True, rnd=None, ctl=None):
    ev = [dict(n='fmt')]
    if ugen:
        ev.append(dict(n='ugen', ctl=ctl or [ONE, ONE, Z, ONE, Z]))
    names_ok = all(x['nm'] == '#' or x['nm'] in NAMES for x in c['cv']) and \
        all(q['c']['nm'] == '#' or q['c']['nm'] in NAMES for q in c['pts'] if 'c' in q)
    if at and names_ok and seg_times is not None and all(on_lattice(t) and t[0] >= 0 for t in seg_times) \
            and on_lattice(c['off']):
        ev += [dict(n='at', t=q) for q in queries([ticks(t) for t in seg_times], ticks(c['off']), rnd)]
    c['ev'] = ev
    return c


def wrap(lst, n):
    return [lst[i % len(lst)] for i in range(n)]


def new_case(lv, tm, cvs, rel, loop, off=Z, **kw):
    c = case('new', lv=lv, tm=tm, cv=cvs, rel=rel, loop=loop, off=off)
    ug = kw.pop('ugen', False)
    rnd = kw.pop('rnd', None)
    c.update(kw)
    return with_events(c, wrap(tm, len(lv) - 1), ugen=ug, rnd=rnd)


def seqs(pool, lo, hi):
    for k in range(lo, hi + 1):
        for s in itertools.product(pool, repeat=k):
            yield list(s)


def nodes(n):
    return [[]] + [[k] for k in range(n)]


def gen_new_exhaustive(thorough, rnd):
    L = [Z, ONE, [-1, 2]]
    T = [Z, [3, 8], ONE]
    out = []
    # one segment: every curve, every node combination
    for lv in itertools.product(L, repeat=2):
        for tm in T:
            for c in ALL_CURVES:
                combos = [(rel, loop) for rel in nodes(1) for loop in ([], [0])]
                if not thorough:        # quick: two of the four node combinations per envelope
                    combos = rnd.sample(combos, 2)
                for rel, loop in combos:
                    out.append(new_case(list(lv), [tm], [c], rel, loop, scalar_cv=rnd.randrange(2),
                                        scalar_tm=int(tm != Z and rnd.randrange(2))))
    # two segments: times and curves of length 1 (wrapping) and 2
    C = [cv('lin'), cv('hold'), cnum(-4)] + ([cv('step')] if thorough else [])
    triples = list(itertools.product(L, repeat=3))
    k = 0
    for lv in triples:
        for tm in seqs(T, 1, 2):
            for cs in seqs(C, 1, 2):
                k += 1
                if not thorough and (k + triples.index(lv)) % 3:
                    continue        # quick: every (times, curves) pair with a third of the level triples, all triples used
                if thorough:
                    for rel in nodes(2):
                        for loop in ([], [0]):
                            out.append(new_case(list(lv), tm, cs, rel, loop))
                else:       # quick: one node combination per envelope, all of them over the set
                    rel = nodes(2)[rnd.randrange(3)]
                    out.append(new_case(list(lv), tm, cs, rel, [[], [0]][rnd.randrange(2)]))
    if thorough:
        # three segments: all shapes of wrapping (|tm|, |cv| in 1..3)
        C3 = [cv('lin'), cv('hold'), cnum(5, 2)]
        L2 = [Z, ONE]
        for lv in itertools.product(L2, repeat=4):
            for tm in seqs([[3, 8], ONE], 1, 3):
                for cs in seqs(C3, 1, 3):
                    out.append(new_case(list(lv), tm, cs, [rnd.randrange(3)] if rnd.randrange(2) else [], []))
    return out


def rlat(rnd, lo, hi, den=8):
    return [rnd.randint(lo * den, hi * den), den]


def gen_new_random(rnd, count, ugen_every):
    out = []
    for i in range(count):
        n = rnd.randint(1, 8)
        lv = [rlat(rnd, -2, 2) for _ in range(n + 1)]
        if rnd.random() < 0.3:      # positive levels: the domain of exp / squared / cubed
            lv = [[rnd.randint(1, 16), 8] for _ in range(n + 1)]
        tm = [[rnd.choice([0, 1, 2, 3, 4, 8, 12, 16]), 8] for _ in range(rnd.randint(1, n))]
        pool = ALL_CURVES[:-1] + [cnum(rnd.randint(-16, 16), 2) for _ in range(3)]
        cs = [rnd.choice(pool) for _ in range(rnd.randint(1, n))]
        rel = [rnd.randrange(n)] if rnd.random() < 0.5 else []
        loop = [rnd.randrange(n)] if rel and rnd.random() < 0.5 else []
        off = rlat(rnd, 0, 2) if rnd.random() < 0.3 else Z
        out.append(new_case(lv, tm, cs, rel, loop, off, fl=rnd.randrange(2), ugen=(i % ugen_every == 0), rnd=rnd))
    return out


DEFAULTS = dict(
    triangle=([ONE, ONE], None), sine=([ONE, ONE], None),
    perc=([[1, 100], ONE, ONE], cnum(-4)), linen=([[1, 100], ONE, ONE, ONE], cv('lin')),
    cutoff=([[1, 10], ONE], cv('lin')),
    dadsr=([[1, 10], [1, 100], [3, 10], [1, 2], ONE, ONE, Z], cnum(-4)),
    adsr=([[1, 100], [3, 10], [1, 2], ONE, ONE, Z], cnum(-4)),
    asr=([[1, 100], ONE, ONE], cnum(-4)))


def ctor_times(c, p):
    """segment durations of a constructor call (for choosing evaluation times only)"""
    if c in ('triangle', 'sine'):
        return [[p[0][0], p[0][1] * 2]] * 2
    return dict(perc=lambda: [p[0], p[1]], linen=lambda: [p[0], p[1], p[2]], cutoff=lambda: [p[0]],
                dadsr=lambda: [p[0], p[1], p[2], p[4]], adsr=lambda: [p[0], p[1], p[3]],
                asr=lambda: [p[0], p[2]])[c]()


def gen_ctors(thorough, rnd):
    out = []
    L = [Z, ONE, [-1, 2], [3, 8]] if thorough else [Z, ONE, [-1, 2]]
    T = [Z, [3, 8], ONE, [1, 4]] if thorough else [Z, [3, 8], ONE]
    C = ALL_CURVES if thorough else [cv('lin'), cv('exp'), cnum(-4), cv('sqr'), cv('hold'), cv('foo')]
    arity = dict(triangle='TL', sine='TL', perc='TTL', linen='TTTL', cutoff='TL', dadsr='TTTLTLB',
                 adsr='TTLTLB', asr='TLT')
    B = [Z, ONE, [-1, 4]]
    for c, sig in arity.items():
        pools = [dict(T=T, L=L, B=B)[k] for k in sig]
        combos = list(itertools.product(*pools))
        if len(combos) > (400 if thorough else 36):
            combos = rnd.sample(combos, 400 if thorough else 36)
        for p in combos:
            p = [list(x) for x in p]
            curves = [None] if c in ('triangle', 'sine') else C
            for k in curves:
                d = case(c, p=p, cv=[k] if k else [LIN])
                if c in ('triangle', 'sine') and p[0][0] == 0:
                    continue
                out.append(with_events(d, ctor_times(c, p), ugen=(rnd.random() < 0.05)))
        # the documented defaults
        p, k = DEFAULTS[c]
        out.append(with_events(case(c, p=p, cv=[k] if k else [LIN], dflt=1), None, at=False, ugen=True))
    # step
    for n in (1, 2, 3):
        for lv in itertools.product(L[:3], repeat=n):
            for tm in itertools.product(T[:3], repeat=n):
                if n == 3 and rnd.random() < 0.8:
                    continue
                for loop in ([], [0]):
                    for off in (Z, ONE):
                        d = case('step', lv=list(lv), tm=list(tm), loop=loop, off=off)
                        out.append(with_events(d, list(tm)))
    out.append(with_events(case('step', lv=[Z, ONE], tm=[ONE, ONE], dflt=1), [ONE, ONE]))
    for rel in (1, 2):        # with a release index (which node it denotes is left open)
        d = case('step', lv=[Z, ONE, [1, 2]], tm=[ONE, [3, 8], ONE], rel=[rel])
        out.append(with_events(d, None, at=False))
    out.append(with_events(case('step', lv=[Z, ONE], tm=[ONE]), None, at=False))      # refused: lengths differ
    # control points
    for n in (2, 3, 4):
        cnt = (300 if thorough else 60) if n > 2 else (200 if thorough else 80)
        for _ in range(cnt):
            ts = [[rnd.choice([0, 1, 3, 4, 8, 8, 16]), 8] for _ in range(n)]
            ls = [rnd.choice(L) for _ in range(n)]
            cs = [rnd.choice(ALL_CURVES[:-1]) for _ in range(n)]
            order = sorted(range(n), key=lambda i: ts[i][0])
            st = [ts[i][0] for i in order]
            seg = [[st[i + 1] - st[i], 8] for i in range(n - 1)]
            off = [st[0], 8]
            d = case('xyc', pts=[dict(t=ts[i], l=ls[i], c=cs[i]) for i in range(n)], off=off)
            out.append(with_events(d, seg, ugen=(rnd.random() < 0.05)))
            kind = rnd.randrange(3)
            pc = [dict(t=ts[i], l=ls[i]) for i in range(n)]
            if kind == 0:
                d = case('pairs', pts=pc, cv=[LIN], cv_none=1, off=off)
            elif kind == 1:
                d = case('pairs', pts=pc, cv=[rnd.choice(ALL_CURVES[:-1])], off=off)
            else:
                d = case('pairs', pts=pc, cv=cs, off=off)
            out.append(with_events(d, seg))
    out.append(with_events(case('pairs', pts=[dict(t=Z, l=Z), dict(t=ONE, l=ONE), dict(t=[2, 1], l=Z)],
                                cv=[LIN, cv('sin')]), None, at=False))     # refused: 2 curves for 3 points
    return out



# ------------------------------------------------------------------ multichannel envelopes
def gen_mc(thorough, rnd):
    """entries of levels / times / curves that are lists of per-channel values (names, numbers, mixed)"""
    out = []
    L = [Z, ONE, [-1, 2], [1, 2], [2, 1]]
    T = [[3, 8], ONE, [1, 2], [1, 4]]
    C = ALL_CURVES[:-1]

    def entry(pool, p_list, maxlen=3):
        if rnd.random() < p_list:
            return [rnd.choice(pool) for _ in range(rnd.randint(1, maxlen))]
        return [rnd.choice(pool)]

    def one(n, pl, pt, pc, bad=False):
        lv = [entry(L, pl) for _ in range(n + 1)]
        tm = [entry(T, pt) for _ in range(rnd.randint(1, n))]
        cvs = [entry(C, pc) for _ in range(rnd.randint(1, n))]
        if bad:
            e = rnd.choice(cvs)
            e[rnd.randrange(len(e))] = cv('foo')
        sc = dict(lv=[rnd.randrange(2) for _ in lv], tm=[rnd.randrange(2) for _ in tm], cv=[rnd.randrange(2) for _ in cvs])
        rel = [rnd.randrange(n)] if rnd.random() < 0.3 else []
        d = case('mc', lv=lv, tm=tm, cv=cvs, rel=rel, loop=[], off=Z, sc=sc, fl=rnd.randrange(2))
        ev = [dict(n='fmt')]
        if rnd.random() < (0.5 if thorough else 0.25):
            ev.append(dict(n='ugen', ctl=[ONE, ONE, Z, ONE, Z]))
        if not bad:
            full = [tm[i % len(tm)] for i in range(n)]
            if all(len(e) == 1 for e in full):       # evaluation times from the (single) time line
                qs = queries([ticks(e[0]) for e in full], 0)
            else:
                qs = [0, 8, 24, 40, 64, 96, 200]
            ev += [dict(n='at', t=q) for q in qs[:8]]
        d['ev'] = ev
        return d
    # systematic: exactly one kind of entry is a list, then all mixed
    reps = 120 if thorough else 30
    for n in (1, 2, 3):
        for pl, pt, pc in ((1, 0, 0), (0, 1, 0), (0, 0, 1), (0.5, 0.5, 0.5), (0, 0, 0.7)):
            for _ in range(reps):
                out.append(one(n, pl, pt, pc))
    for _ in range(40 if thorough else 10):
        out.append(one(rnd.randint(1, 3), 0.3, 0.3, 0.8, bad=True))
    return out

def nontrivial(c):
    if c['c'] == 'mc':
        return True
    n = len(c['lv']) - 1
    return c['c'] != 'new' or len(c['tm']) < n or len(c['cv']) < n or bool(c['rel']) or bool(c['loop']) \
        or any(x['nm'] != 'lin' for x in c['cv'])


def run_cases(ctx, cases):
    for i, c in enumerate(cases):
        c['id'] = i
    n = len(cases)
    per = max(1, (n + 15) // 16)
    inputs = [dict(cases=cases[i:i + per]) for i in range(0, n, per)]
    outs = ctx.run_drivers(DRIVER, inputs)
    traces = [t for o in outs for t in o['traces']]
    if len(traces) != n:
        raise MachineryError('driver returned %d traces for %d cases' % (len(traces), n))
    return traces


def describe(t):
    keep = {k: t[k] for k in ('c', 'lv', 'tm', 'cv', 'rel', 'loop', 'off', 'p', 'pts', 'fl') if t.get(k) not in ([], None)}
    for k in ('dflt', 'cv_none', 'scalar_cv', 'scalar_tm', 'sc'):
        if t.get(k):
            keep[k] = t[k]
    return keep


def judge(ctx, traces, label):
    verdicts = ctx.validate('TraceEnv', 'TraceEnv.cfg', traces)
    nacc = 0
    for t in traces:
        if nontrivial(t):
            ctx.nontrivial(describe(t))
        v = verdicts[t['id']]
        if v is None:
            nacc += 1
            continue
        at, why = v
        ev = t['ev'][at - 1]
        c = dict(t)
        c['ev'] = [dict(n=e['n'], t=e.get('t', 0), ctl=e.get('ctl', [])) for e in t['ev']]
        ctx.violation('env:%s:%s' % (t['c'], why),
                      'Env %s: %s (event %d %s t=%s: observed %s) for %s'
                      % (t['c'], why, at, ev['n'], ev.get('t'), ev['r'], describe(t)),
                      dict(kind='case', case=c, rejected_at=at, why=why, observed=ev['r']))
    ctx.cov['evaluations'] += sum(len(t['ev']) for t in traces)
    ctx.cov.setdefault('groups', {})[label] = dict(cases=len(traces), accepted=nacc)



# ------------------------------------------------------------------ history dimension (one instance, many operations)
HDRIVER = 'drivers/c19_envobj.py'
CTL = [ONE, ONE, Z, ONE, Z]
IX = [1, 2]
H_INIT = dict(lv=[Z, ONE, Z], tm=[ONE, ONE], cv=[LIN], rel=[], loop=[], off=Z)
H_ALPHABET = [
    dict(n='fmt'), dict(n='ifmt'), dict(n='at', t=32), dict(n='dur'),
    dict(n='ugenE', ctl=CTL), dict(n='ugenI', ix=IX), dict(n='ugenEI', ctl=CTL, ix=IX), dict(n='ugenIE', ctl=CTL, ix=IX),
    dict(n='set_levels', lv=[ONE, Z, [-1, 1]]), dict(n='set_times', tm=[[1, 2], [3, 2]]),
    dict(n='set_duration', d=[4, 1]),
    dict(n='set_curves', cv=[cv('hold'), LIN]), dict(n='set_release_node', node=[1]),
    dict(n='set_offset', off=ONE)]


def random_history(rnd, length):
    n = rnd.randint(1, 4)
    pool = ALL_CURVES[:-1] + [cnum(rnd.randint(-8, 8), 2)]

    def levels():
        if rnd.random() < 0.4:
            return [[rnd.randint(1, 16), 8] for _ in range(n + 1)]
        return [rlat(rnd, -2, 2) for _ in range(n + 1)]

    def times():
        return [[rnd.choice([1, 2, 3, 4, 8, 12, 16]), 8] for _ in range(n)]

    def curves():
        return [rnd.choice(pool) for _ in range(rnd.randint(1, n))]

    def anode():
        return [rnd.randrange(n)] if rnd.random() < 0.7 else []
    init = dict(lv=levels(), tm=times(), cv=curves(), rel=anode() if rnd.random() < 0.3 else [], loop=[],
                off=rlat(rnd, 0, 1) if rnd.random() < 0.3 else Z)
    ev = []
    for _ in range(length):
        x = rnd.random()
        if x < 0.45:
            k = rnd.choice(['fmt', 'ifmt', 'at', 'at', 'ugenE', 'ugenI', 'ugenEI', 'ugenIE'])
            e = dict(n=k)
            if k == 'at':
                e['t'] = rnd.randint(-8, 64 * 2 * n + 16)
            if k.startswith('ugen'):
                e['ctl'] = [ONE, [rnd.randint(1, 16), 8], [rnd.randint(-8, 8), 8], [rnd.randint(1, 16), 8], [rnd.choice([0, 2]), 1]]
                e['ix'] = [rnd.randint(0, 16), 8]
        else:
            k = rnd.choice(['set_levels', 'set_times', 'set_curves', 'set_release_node', 'set_loop_node', 'set_offset'])
            e = dict(n=k)
            if k == 'set_levels':
                e['lv'] = levels()
            elif k == 'set_times':
                e['tm'] = times()
            elif k == 'set_curves':
                e['cv'] = curves()
                e['scalar_cv'] = rnd.randrange(2)
            elif k == 'set_offset':
                e['off'] = rlat(rnd, 0, 2)
            else:
                e['node'] = anode()
        ev.append(e)
    return dict(init=init, fl=rnd.randrange(2), ev=ev)


# two instances: levels whose interior lies half way (linear maps keep that exact), times whose sum is a power of two
DY_LEVELS = {2: [[Z, ONE, Z], [ONE, Z, [-1, 1]], [[1, 2], ONE, [3, 4]], [ONE, ONE, Z]],
             3: [[Z, [2, 1], ONE, Z], [ONE, Z, Z, ONE], [Z, [1, 2], ONE, Z]]}
DY_TIMES = {2: [[ONE, ONE], [[1, 2], [3, 2]], [[3, 8], [5, 8]], [ONE, [3, 1]]],
            3: [[[1, 2], [1, 2], ONE], [ONE, ONE, [2, 1]], [[1, 4], [1, 4], [1, 2]]]}
DY_DURS = [[1, 2], ONE, [2, 1], [4, 1]]
DY_RANGES = [(Z, [2, 1]), ([1, 2], ONE), ([-1, 1], ONE)]
DY_POS_RANGES = [([1, 4], [2, 1]), ([1, 2], ONE), (ONE, [4, 1])]
OBS = ['fmt', 'ifmt', 'at', 'dur', 'ugenE', 'ugenI', 'ugenEI', 'ugenIE']


def obs_event(rnd, name, i, n):
    e = dict(n=name, i=i)
    if name == 'at':
        e['t'] = rnd.choice([0, 16, 32, 64, 96, 128, 200, 300])
    if name.startswith('ugen'):
        e['ctl'] = CTL
        e['ix'] = IX
    return e


def two_valued(lv):
    """every level is the least or the greatest one (None: unknown, treated as not two valued)"""
    return lv is not None and len({a[0] * 64 // a[1] for a in lv}) <= 2


def derive_event(rnd, src, levels):
    kinds = ['range'] + (['exprange', 'curverange'] if two_valued(levels) else [])
    kind = rnd.choice(kinds)
    lo, hi = rnd.choice(DY_RANGES if kind != 'exprange' else DY_POS_RANGES)
    return dict(n='derive', i=src, kind=kind, lo=lo, hi=hi)


def setter_event(rnd, i, n):
    k = rnd.choice(['set_levels', 'set_times', 'set_curves', 'set_release_node', 'set_loop_node', 'set_offset',
                    'set_duration', 'set_duration'])
    e = dict(n=k, i=i)
    if k == 'set_levels':
        e['lv'] = rnd.choice(DY_LEVELS[n])
    elif k == 'set_times':
        e['tm'] = rnd.choice(DY_TIMES[n])
    elif k == 'set_curves':
        e['cv'] = [rnd.choice([LIN, cv('hold'), cv('step'), cv('sine'), cnum(-4)]) for _ in range(rnd.randint(1, n))]
    elif k == 'set_offset':
        e['off'] = rnd.choice([Z, ONE, [1, 2]])
    elif k == 'set_duration':
        e['d'] = rnd.choice(DY_DURS)
    else:
        e['node'] = [rnd.randrange(n)] if rnd.random() < 0.7 else []
    return e


def family_history(rnd, length):
    """operations on an instance and on the one derived from it, in any order"""
    n = rnd.choice([2, 2, 3])
    levels = {1: rnd.choice(DY_LEVELS[n])}
    init = dict(lv=levels[1], tm=rnd.choice(DY_TIMES[n]), cv=[rnd.choice([LIN, cv('hold'), cnum(-4)])], rel=[], loop=[], off=Z)
    ev = []
    for _ in range(length):
        have = sorted(levels)
        x = rnd.random()
        if (len(have) == 1 and x < 0.3) or x < 0.08:
            src = rnd.choice(have)
            e = derive_event(rnd, src, levels[src])
            levels[3 - src] = None       # mapped: whatever they are, ends stay ends and the middle stays the middle
            if levels[src] is not None and two_valued(levels[src]):
                levels[3 - src] = [Z, ONE, Z] if n == 2 else [Z, ONE, ONE, Z]      # stands for "two valued"
            ev.append(e)
        elif x < 0.55:
            i = rnd.choice(have)
            e = setter_event(rnd, i, n)
            if e['n'] == 'set_levels':
                levels[i] = e['lv']
            ev.append(e)
        else:
            ev.append(obs_event(rnd, rnd.choice(OBS), rnd.choice(have), n))
    ev.append(obs_event(rnd, rnd.choice(OBS), rnd.choice(sorted(levels)), n))
    return dict(init=init, fl=rnd.randrange(2), ev=ev)


def family_structured(thorough, rnd):
    """observe, derive, operate on either instance, observe either instance"""
    out = []
    sets = [dict(n='set_levels', lv=[ONE, Z, [-1, 1]]), dict(n='set_times', tm=[[1, 2], [3, 2]]),
            dict(n='set_curves', cv=[cv('hold'), LIN]), dict(n='set_release_node', node=[1]), dict(n='set_offset', off=ONE),
            dict(n='set_duration', d=[4, 1]), dict(n='set_duration', d=[1, 2])]
    first = [None] + OBS[:4]
    for o0 in first:
        for kind, (lo, hi) in (('range', DY_RANGES[1]), ('exprange', DY_POS_RANGES[0]), ('curverange', DY_RANGES[0])):
            for st in sets:
                for i in (1, 2):
                    for o2 in OBS:
                        for j in (1, 2):
                            if not thorough and rnd.random() > 0.07:
                                continue
                            ev = ([obs_event(rnd, o0, 1, 2)] if o0 else []) + [dict(n='derive', i=1, kind=kind, lo=lo, hi=hi)]
                            ev += [dict(st, i=i), obs_event(rnd, o2, j, 2), obs_event(rnd, rnd.choice(OBS), 3 - j, 2)]
                            out.append(dict(init=H_INIT, fl=0, ev=ev))
    return out


def run_hist_cases(ctx, cases):
    for i, c in enumerate(cases):
        c['id'] = i
    n = len(cases)
    per = max(1, (n + 15) // 16)
    outs = ctx.run_drivers(HDRIVER, [dict(cases=cases[i:i + per]) for i in range(0, n, per)])
    traces = [t for o in outs for t in o['traces']]
    if len(traces) != n:
        raise MachineryError('history driver returned %d traces for %d cases' % (len(traces), n))
    return traces


def hist_brief(t):
    keep = {'fmt': (), 'ifmt': (), 'dur': (), 'at': ('t',), 'derive': ('kind', 'lo', 'hi'), 'set_levels': ('lv',),
            'set_times': ('tm',), 'set_curves': ('cv',), 'set_release_node': ('node',), 'set_loop_node': ('node',),
            'set_offset': ('off',), 'set_duration': ('d',)}
    return dict(init=t['init'], ops=[dict([('n', e['n']), ('i', e.get('i', 1))] + [(k, e.get(k)) for k in keep.get(e['n'], ())])
                                     for e in t['ev']])


def judge_hist(ctx, traces, label):
    verdicts = ctx.validate('TraceEnvObj', 'TraceEnvObj.cfg', traces)
    nacc = 0
    for t in traces:
        names = [e['n'] for e in t['ev']]
        if any(x.startswith('set_') for x in names) and not names[-1].startswith('set_'):
            ctx.nontrivial(hist_brief(t))
        v = verdicts[t['id']]
        if v is None:
            nacc += 1
            continue
        at, why = v
        ev = t['ev'][at - 1]
        c = dict(init=t['init'], fl=t.get('fl', 0),
                 ev=[{k: v for k, v in e.items() if k not in ('r', 'r2')} for e in t['ev']])
        sig = 'envobj:stale-cache' if why.endswith(':stale-cache') else 'envobj:%s' % why
        ctx.violation(sig,
                      'one Env instance, operations %s: observation %d (%s) is not the one of the current specification '
                      '(%s): observed %s %s; history %s'
                      % (names[:at], at, ev['n'], why, ev['r'], ev['r2'] if ev['n'] in ('ugenEI', 'ugenIE') else '',
                         hist_brief(t)),
                      dict(kind='history', case=c, rejected_at=at, why=why))
    ctx.cov['evaluations'] += sum(len(t['ev']) for t in traces)
    ctx.cov.setdefault('groups', {})[label] = dict(cases=len(traces), accepted=nacc)
    return {t['id'] for t in traces if verdicts[t['id']] is not None}


def histories(ctx, thorough, rnd):
    acts = ('Fmt', 'IFmt', 'At', 'Dur', 'UgenE', 'UgenI', 'UgenBoth', 'SetLevels', 'SetTimes', 'SetCurves', 'SetRel',
            'SetOff', 'SetDuration', 'Derive')
    r = ctx.model_check('EnvObj', 'EnvObj_thorough.cfg' if thorough else 'EnvObj.cfg', require_cover=acts, timeout=900)
    ctx.expect_ok(r, 'Env instance: cached arrays dropped on assignment answer the current specification')
    # sensitivity (thorough): without dropping the kept arrays / with a shared times cell rescaled in place the same
    # invariant must fail
    from harness import tlc
    for cfg in (('EnvObj_stale.cfg', 'EnvObj_inplace.cfg') if thorough else ()):
        r = tlc.run('EnvObj', cfg, ctx.work, workers=4, timeout=300)
        if r.ok or 'Coherent' not in r.violated:
            raise MachineryError('%s: the breaking history was not found (vacuous invariant?)' % cfg)
        ctx.cov['model_runs'].append(dict(module='EnvObj', cfg=cfg, label='expected violation of Coherent', **r.summary()))
    cases = []
    depth = 3
    for h in itertools.chain(itertools.product(H_ALPHABET, repeat=2), itertools.product(H_ALPHABET, repeat=depth)):
        if h[-1]['n'].startswith('set_'):
            continue            # nothing is observed after the last assignment
        if not thorough and len(h) == 3 and not h[1]['n'].startswith('set_'):
            continue            # quick: all pairs, and every (operation, assignment, observation)
        cases.append(dict(init=H_INIT, fl=0, ev=[dict(e) for e in h]))
    if thorough:      # longer: two assignments then every pair of observations, in both orders
        sets = [e for e in H_ALPHABET if e['n'].startswith('set_')]
        obs = [e for e in H_ALPHABET if not e['n'].startswith('set_')]
        for o0 in obs:
            for s1 in sets:
                for o1 in obs:
                    for s2 in sets:
                        for o2 in obs[:4]:
                            cases.append(dict(init=H_INIT, fl=0, ev=[dict(x) for x in (o0, s1, o1, s2, o2)]))
    fam = family_structured(thorough, rnd)
    cases += fam
    n_ex = len(cases)
    nr = 3000 if thorough else 100
    cases += [random_history(rnd, rnd.randint(4, 12)) for _ in range(nr)]
    nfam = 3000 if thorough else 160
    cases += [family_history(rnd, rnd.randint(4, 10)) for _ in range(nfam)]
    # S->C: histories simulated by TLC from the instance model, with the answers it prescribes
    nsim = 400 if thorough else 12
    behs, r = tlc.simulate_behaviours('EnvObj', 'EnvObj_sim.cfg', ctx.work, num=nsim, depth=8, seed=ctx.seed + 3,
                                      timeout=600)
    ctx.cov['transitions'] += r.generated
    sim_expect = {}
    for b in behs:
        st0 = b[0][1]
        init = st0['abs'][0]
        ev, exp = [], []
        for act, st in b[1:]:
            n = st['last']['n']
            i = st['last']['i']
            sp = st['abs'][i - 1]
            e = dict(n=n, i=i)
            if n == 'at':
                e['t'] = st['last']['t']
            elif n in ('ugenE', 'ugenEI'):
                e['ctl'] = CTL
            if n in ('ugenI', 'ugenEI'):
                e['ix'] = IX
            if n == 'set_levels':
                e['lv'] = sp['lv']
            elif n == 'set_times':
                e['tm'] = sp['tm']
            elif n == 'set_curves':
                e['cv'] = sp['cv']
            elif n == 'set_release_node':
                e['node'] = sp['rel']
            elif n == 'set_offset':
                e['off'] = sp['off']
            elif n == 'set_duration':
                tot = [0, 1]
                for x in sp['tm']:
                    tot = [tot[0] * x[1] + x[0] * tot[1], tot[1] * x[1]]
                from math import gcd
                g = gcd(tot[0], tot[1])
                e['d'] = [tot[0] // g, tot[1] // g]
            elif n == 'derive':
                # the model derives instance 2 from instance 1: recover the mapping from the two level lists
                l1, l2 = st['abs'][0]['lv'], st['abs'][1]['lv']
                vals = sorted(set(map(tuple, l2)), key=lambda r: r[0] / r[1])
                e.update(kind='range', lo=list(vals[0]), hi=list(vals[-1]))
                if len(set(map(tuple, l1))) == 1:
                    e.update(lo=list(l2[0]), hi=list(l2[0]))
            ev.append(e)
            exp.append(st['last']['obs'])
        if ev:
            sim_expect[len(cases)] = exp
            cases.append(dict(init=init, fl=0, ev=ev))
    traces = run_hist_cases(ctx, cases)
    rejected = judge_hist(ctx, traces, 'instance histories')
    nrep = 0
    for i, exp in sim_expect.items():
        t = traces[i]
        nrep += 1
        if t['id'] in rejected:
            continue            # already decided (and reported) by the trace specification
        for k, (e, x) in enumerate(zip(t['ev'], exp)):
            if e['n'].startswith('set_') or e['n'] == 'derive':
                continue
            got = [e['r']['v'], e['r2']['v']] if e['n'] == 'ugenEI' else (e['r']['v'][0] if e['n'] in ('at', 'dur') and e['r']['v'] else e['r']['v'])
            if e['r']['k'] != 'ok' or got != x:
                ctx.violation('envobj:replay:%s' % e['n'],
                              'replayed instance history of the model: %s answered %s, the model %s; history %s'
                              % (e['n'], got, x, hist_brief(t)),
                              dict(kind='history', case=dict(init=t['init'], fl=0, ev=[{a: b for a, b in q.items() if a not in ('r', 'r2')} for q in t['ev']]),
                                   rejected_at=k + 1, why='replay'))
                break
    ctx.cov['instance_histories'] = dict(exhaustive=n_ex - len(fam), depth=depth, two_instance_structured=len(fam),
                                         random=nr, two_instance_random=nfam, simulated_replayed=nrep)
    ctx.sample(dict(history=hist_brief(traces[n_ex]), answers=[e['r']['v'][:8] for e in traces[n_ex]['ev']][:6]))


def run(ctx):
    thorough = not ctx.quick
    rnd = random.Random(ctx.seed + 19)
    DENSE[0] = False
    acts = ('New', 'Triangle', 'Sine', 'Perc', 'Linen', 'Step', 'Cutoff', 'Dadsr', 'Adsr', 'Asr', 'Xyc', 'Pairs',
            'Query')
    # 1. design model: every envelope the constructors build from the constant sets satisfies the laws
    r = ctx.model_check('Env', 'Env.cfg', require_cover=acts, timeout=900)
    ctx.expect_ok(r, 'Env laws (quick constants)')
    r = ctx.model_check('EnvMC', 'EnvMC_thorough.cfg' if thorough else 'EnvMC.cfg', require_cover=('Build',), timeout=900)
    ctx.expect_ok(r, 'multichannel expansion laws')
    if thorough:
        r = ctx.model_check('Env', 'Env_thorough.cfg', require_cover=acts, timeout=1500)
        ctx.expect_ok(r, 'Env laws (wide constants)')
        r = ctx.model_check('Env', 'Env_deep.cfg', require_cover=acts, timeout=1500)
        ctx.expect_ok(r, 'Env laws (3 segments)')

    stage = ctx.cov.setdefault('stage_s', {})
    stage['model'] = round(time.time() - ctx.t0, 1)
    # 2. C->S: the real Env on enumerated and random envelopes
    cases = gen_new_exhaustive(thorough, rnd)
    n_ex = len(cases)
    cases += gen_ctors(thorough, rnd)
    n_ct = len(cases) - n_ex
    mc_cases = gen_mc(thorough, rnd)
    cases += mc_cases
    ctx.cov['multichannel_cases'] = len(mc_cases)
    nr = 3000 if thorough else 300
    DENSE[0] = thorough        # the random envelopes are also evaluated near every breakpoint
    cases += gen_new_random(rnd, nr, 10 if thorough else 6)
    DENSE[0] = False
    # every k-th enumerated envelope also goes through a SynthDef
    k = 25 if thorough else 40
    for i, c in enumerate(cases[:n_ex]):
        if i % k == 0:
            ctl = [ONE, [rnd.randint(1, 16), 8], [rnd.randint(-8, 8), 8], [rnd.randint(1, 16), 8], [rnd.choice([0, 2]), 1]]
            c['ev'].insert(1, dict(n='ugen', ctl=ctl))
    t1 = time.time()
    traces = run_cases(ctx, cases)
    stage['drive'] = round(time.time() - t1, 1)
    t1 = time.time()
    judge(ctx, traces, 'enumerated+constructors+random')
    stage['validate'] = round(time.time() - t1, 1)
    t1 = time.time()
    good = [t for t in traces if t['c'] == 'adsr' and len(t['ev']) > 3]
    if good:
        t = good[0]
        ctx.sample(dict(call=describe(t), format=t['ev'][0]['r']['v'][:12],
                        at=[(e['t'], e['r']['v']) for e in t['ev'] if e['n'] == 'at'][:6]))
    ctx.cov['ugen_cases'] = sum(1 for t in traces for e in t['ev'] if e['n'] == 'ugen')
    ctx.cov['at_queries'] = sum(1 for t in traces for e in t['ev'] if e['n'] == 'at')

    # 2b. one instance, histories of operations
    t1 = time.time()
    histories(ctx, thorough, rnd)
    stage['histories'] = round(time.time() - t1, 1)
    t1 = time.time()
    # 3. S->C: envelopes and values produced by the specification replayed on the real class
    from harness import tlc
    nsim = 400 if thorough else 10
    behs, r = tlc.simulate_behaviours('Env', 'Env_sim.cfg', ctx.work, num=nsim, depth=8, seed=ctx.seed + 1,
                                      timeout=900)
    ctx.cov['transitions'] += r.generated
    sim = []
    exp = []
    seen = set()
    for b in behs:
        for act, st in b:           # every state of a behaviour is an (envelope, time, format, value) sample
            e = st['env']
            key = repr((e, st['tq']))
            if st['fmt']['k'] != 'ok' or key in seen:
                continue
            seen.add(key)
            c = case('new', lv=e['lv'], tm=e['tm'], cv=e['cv'], rel=e['rel'], loop=e['loop'], off=e['off'])
            c['ev'] = [dict(n='fmt'), dict(n='at', t=st['tq'])]
            sim.append(c)
            exp.append((st['fmt']['v'], st['val'], act))
    tr2 = run_cases(ctx, sim)
    ctx.cov['spec_behaviours_replayed'] = len(tr2)
    ctx.cov['evaluations'] += 2 * len(tr2)
    for t in tr2:
        f, v, act = exp[t['id']]
        got_f = t['ev'][0]['r']
        got_v = t['ev'][1]['r']
        ctx.nontrivial(describe(t))
        if got_f['k'] != 'ok' or got_f['v'] != f:
            ctx.violation('env:replay:format', 'replayed spec behaviour (%s): format %s, spec %s for %s'
                          % (act, got_f, f, describe(t)), dict(kind='case', case=sim[t['id']]))
        elif v and (got_v['k'] != 'ok' or got_v['v'] != v):
            ctx.violation('env:replay:at', 'replayed spec behaviour (%s): value at %s ticks %s, spec %s for %s'
                          % (act, t['ev'][1]['t'], got_v, v, describe(t)), dict(kind='case', case=sim[t['id']]))
    stage['simulate+replay'] = round(time.time() - t1, 1)
    ctx.cov['rule'] = (
        '%d enumerated Env(...) calls (1-2%s segments, 3 levels x 3 times, every curve name/number, every release '
        'node, wrapping times and curves), %d constructor calls (triangle sine perc linen cutoff dadsr adsr asr over '
        'parameter grids and their documented defaults, step, xyc, pairs with shuffled points), %d seeded random '
        'envelopes (1-8 segments), %d TLC-simulated envelopes; each: format + offset, every %dth also through '
        'SynthDef bytes, values at every breakpoint, inside every segment, before 0 and past the end; '
        'non-trivial = not a plain 3-point linear Env' % (n_ex, ' (+3 sampled)' if thorough else '', n_ct, nr, len(tr2), k))
    ctx.cov['exhaustive'] = True
    ctx.assumptions += [
        'values on the lattice (multiples of 1/8, times in 1/64 s) so that float arithmetic is exact; off the lattice '
        'only the documented default arguments are encoded (floor at 2^-20)',
        'curved shapes (exp sin wel number sqr cub) are decided by the laws only (breakpoint value, between '
        'neighbours, last level after the end; 1 unit of 2^-20 slack), not their interior values',
        'exp is judged for same-sign non-zero levels, squared/cubed for non-negative levels (server domain)',
        'Env.step(release_level=k): which node k denotes is not fixed by the statement and is not judged',
        'multichannel envelopes, UGen-valued levels, circle/cyclic, range/exprange and IEnvGen format are not covered']


def replay(ctx, rp):
    c = rp['replay']['case']
    if rp['replay'].get('kind') == 'history':
        traces = run_hist_cases(ctx, [c])
        judge_hist(ctx, traces, 'replay')
        ctx.sample(dict(history=hist_brief(traces[0]), observed=[e['r'] for e in traces[0]['ev']][:6]))
        return
    traces = run_cases(ctx, [c])
    judge(ctx, traces, 'replay')
    ctx.sample(dict(call=describe(c), observed=[e['r'] for e in traces[0]['ev']][:6]))


MANIFEST = dict(
    category='model_checking',
    text=('Env.tla transcribes the documented server array format (shape numbers, -99, wrapped times and curves), the '
          'breakpoints of the standard constructors and the piecewise evaluation; TLC checks the stated laws on every '
          'envelope the constructors build from small constant sets (and that an array-walking evaluator finds the same '
          'segment). The real Env is bound to it by TLC validating, per envelope, the recorded _envgen_format(), the '
          'EnvGen inputs decoded from SynthDef bytes and _at(t) at and between breakpoints, for exhaustively enumerated '
          'small envelopes, all constructors and seeded random larger ones, plus replay of TLC-simulated envelopes.'),
    note=('Exact for format, constructors and step/linear/hold evaluation on a dyadic lattice; curved segments are decided '
          'by the stated laws only (not interior accuracy). Not covered: multichannel/UGen levels, circle, IEnvGen format, '
          'meaning of Env.step release index. Trusted: TLC, the 60-line SCgf reader and the fixed-point projection in the driver.'),
    technique='TLA+ function specification + laws model-checked by TLC; batch trace validation of enumerated/random/constructor calls; S->C replay of simulated envelopes',
    design_ref='DESIGN.md section 3 / C19',
    engine='Env',
)
