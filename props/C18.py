"""C18 - incoming messages reach exactly the responders that should fire; malformed datagrams;
callback registries.

Decided by: OscMatch.tla (OSC 1.0 address patterns), Dispatch.tla (which responders a datagram
invokes; Osc.tla's total decoder classifies the datagram), Registries.tla; design models
OscMatchModel / DispatchModel / OscFaultModel / RegistriesModel checked by TLC; bound to the real
code by TraceOscMatch / TraceDispatch / TraceRegistries:
 - every pattern "/" + <= k characters over {a b / ? * [ ] ! - { , }} against every address
   "/" + <= n characters over {a b /} on the function the matching dispatcher calls,
 - histories of responder operations and received datagrams (TLC-simulated behaviours of
   DispatchModel, directed and seeded random ones, datagrams damaged by TLC-chosen faults and random
   bytes) on real OscFunc objects in RT mode, each datagram fed through OscInterface._handle_request
   and waited for in harness/oscrt.deliver (watchdog: a hang is an observation),
 - histories on the real SystemAction / ServerAction / NotificationCenter classes."""
import itertools
import json
import os
import random
import time
from concurrent.futures import ThreadPoolExecutor

from harness import oscgen as g
from harness import oscv
from harness import tlc
from harness.common import MachineryError, NCPU

DRIVER = 'drivers/c18_dispatch.py'
PAT = 'ab/?*[]!-{,}'


def codes(s):
    return list(s.encode('latin-1'))


# ------------------------------------------------------------------ cases
def match_cases(k, maxa):
    out = []
    for n in range(k + 1):
        for t in itertools.product(PAT, repeat=n):
            out.append(dict(kind='match', p=codes('/' + ''.join(t)), maxa=maxa, src='exhaustive'))
    return out


PATHS = ['/a', '/ab', '/b', '/a/b', '/abc', '/ba']
MADDRS = ['/a', '/ab', '/b', '/a/b', '/abc', '/ba', '/c', '/a/', '//', '/*', '/a*', '/*b', '/?', '/a?', '/??', '/[ab]', '/[!a]',
          '/[a-c]b', '/{a,ab}', '/{ab,b}', '/a/*', '/*/b', '/*/*', '/**', '/a?c', '/[a', '/{a', '/a]', '/a}', '/a,b', '/[!a', '/{a,']
SRCS = [dict(h=0, p=0), dict(h=0, p=0), dict(h=1, p=0), dict(h=1, p=5001), dict(h=2, p=0)]
SENDERS = [dict(h=1, p=5001), dict(h=1, p=5002), dict(h=2, p=5001)]
ARGS = [[], [g.I(1)], [g.I(1), g.I(2)], [g.I(0), g.I(9)], [g.S('x')], [g.I(1), g.S('x'), g.I(7)], [g.F(2.5)], [g.B(b'\x01\x02\x03')]]
TMPLS = [[], [], [], [dict(k='eq', v=g.I(1))], [dict(k='any'), dict(k='gt', n=5)], [dict(k='eq', v=g.S('x'))],
         [dict(k='eq', v=g.I(1)), dict(k='any'), dict(k='eq', v=g.I(7))]]


QUIET = dict(rk=0, acts=[], ar=4)
ARITIES = [1, 2, 3, 4, 0]      # declared parameters of a callback: a prefix of (msg, time, addr, recv_port); 0 = *args


def rand_beh(rnd, nmax=6):
    """what a callback does: nothing (mostly), raise on its k-th invocation, free/disable/enable responders"""
    ar = rnd.choice(ARITIES + [4, 4, 1])
    if rnd.random() < 0.55:
        return dict(QUIET, ar=ar)
    acts = [dict(op=rnd.choice(['free', 'disable', 'enable']), i=rnd.randint(1, nmax)) for _ in range(rnd.choice([0, 0, 1, 1, 2]))]
    return dict(rk=rnd.choice([0, 1, 1, 1, 2, 3]), acts=acts, ar=ar)


def create(rnd, **kw):
    e = dict(op='create', kind=rnd.choice(['exact', 'exact', 'matching']), path=codes(rnd.choice(PATHS)),
             src=rnd.choice(SRCS), rport=rnd.choice([0, 0, 0, 1, 2]), tmpl=rnd.choice(TMPLS), os=rnd.random() < 0.25,
             beh=rand_beh(rnd))
    e.update(kw)
    return e


def msg_value(rnd):
    return g.M(rnd.choice(MADDRS), rnd.choice(ARGS))


def recv(rnd, v=None, dg=None):
    e = dict(op='recv', src=rnd.choice(SENDERS), via=rnd.choice([1, 1, 2]))
    if dg is not None:
        e['dg'] = list(dg)
    else:
        e['v'] = v
    return e


def bundle_value(rnd):
    t = rnd.choice([g.K('none'), g.Lat(0), g.Lat(0.5), g.Lat(2)])
    els = [msg_value(rnd) for _ in range(rnd.randint(1, 3))]
    if rnd.random() < 0.3:
        t2 = t if t['t'] != 'lat' else g.Lat(4)
        els.append(g.Bn(t2, [msg_value(rnd)]))
    return g.Bn(t, els)


def random_bytes(rnd):
    k = rnd.random()
    if k < 0.3:
        return bytes(rnd.randrange(256) for _ in range(rnd.choice([0, 0, 0, 1, 3, 4, 8, 12, 16, 20, 24, 33, 64])))
    if k < 0.6:
        return b'/a' + bytes(rnd.choice([0, 0, 0, 44, 105, 115, 98, 102, 91, 93, 255]) for _ in range(rnd.choice([2, 6, 10, 14, 18])))
    return b'#bundle\0' + bytes(rnd.choice([0, 0, 0, 1, 4, 8, 12, 47, 97, 44, 255, 128]) for _ in range(rnd.choice([0, 4, 8, 12, 16, 20, 28])))


def random_history(rnd, faults):
    n = rnd.randint(4, 22)
    ev = [create(rnd)]
    nr = 1
    freed = set()
    for _ in range(n):
        x = rnd.random()
        i = rnd.randint(1, nr)
        if x < 0.18 and nr < 6:
            ev.append(create(rnd))
            nr += 1
        elif x < 0.24:
            if i not in freed:
                ev.append(dict(op='enable', i=i))
        elif x < 0.32:
            ev.append(dict(op='disable', i=i))
        elif x < 0.37:
            ev.append(dict(op='free', i=i))
            freed.add(i)
        elif x < 0.42:
            ev.append(dict(op='oneshot', i=i))
        elif x < 0.46:
            ev.append(dict(op='setfunc', i=i, fn=rnd.randint(1, 3), beh=rand_beh(rnd)))
        elif x < 0.49:
            ev.append(dict(op='setperm', i=i, b=rnd.random() < 0.7))
        elif x < 0.52:
            ev.append(dict(op='cmdperiod'))
            # what CmdPeriod freed is the spec's business; never re-enable afterwards (could be freed)
            freed.update(range(1, nr + 1))
        elif x < 0.80:
            ev.append(recv(rnd, v=msg_value(rnd)))
        elif x < 0.88:
            ev.append(recv(rnd, v=bundle_value(rnd)))
        elif x < 0.95 and faults:
            ev.append(recv(rnd, dg=rnd.choice(faults)))
        else:
            ev.append(recv(rnd, dg=random_bytes(rnd)))
            if rnd.random() < 0.5:
                ev[-1]['src'] = rnd.choice(HOSTILE_SENDERS)
    return ev


FAMILIES = [(['/a', '/ab', '/abc'], '/a*'), (['/a', '/b', '/ab'], '/?*'), (['/ab', '/ba', '/a'], '/*'), (['/a/b', '/a/a', '/b/a'], '/*/?'),
            (['/ab', '/ba', '/abc'], '/{ab,ba,abc}')]


def multipath_histories():
    """One message whose address is a pattern matching several registered paths; a callback frees / disables a
    responder of ANOTHER path - the sole one of its path or not, registered before or after the actor, for the
    matching dispatcher, the exact one and both together; a third, untouched responder must fire exactly once."""
    plain = dict(src=dict(h=0, p=0), rport=0, tmpl=[], os=False, beh=QUIET)
    s1 = dict(h=1, p=5001)
    out = []
    for paths, pat in FAMILIES[:3]:
        for kinds in (('matching',) * 4, ('exact',) * 4, ('matching', 'exact', 'matching', 'exact'), ('exact', 'matching', 'matching', 'matching')):
            for actor in (1, 2, 3):
                for target in (1, 2, 3):
                    if actor == target:
                        continue
                    for op in ('free', 'disable'):
                        for sole in (True, False):
                            ev = []
                            for i in range(3):
                                beh = dict(rk=0, acts=[dict(op=op, i=target)]) if i + 1 == actor else QUIET
                                ev.append(dict(dict(op='create', kind=kinds[i], path=codes(paths[i]), **plain), beh=beh))
                            if not sole:    # a fourth responder shares the target's path
                                ev.append(dict(op='create', kind=kinds[target - 1], path=codes(paths[target - 1]), **plain))
                            ev.append(dict(op='recv', v=g.M(pat, []), src=s1, via=1))
                            ev.append(dict(op='recv', v=g.M(paths[0], [g.I(1)]), src=s1, via=1))     # literal: the exact ones too
                            ev.append(dict(op='recv', v=g.M(pat, [g.I(2)]), src=s1, via=1))
                            out.append(ev)
    return out


def multipath_random(rnd):
    """random history in which everybody listens on paths that one pattern matches"""
    paths, pat = rnd.choice(FAMILIES)
    n = rnd.randint(2, 5)
    kind = rnd.choice(['matching', 'matching', 'exact', None])
    ev = []
    for i in range(n):
        acts = [dict(op=rnd.choice(['free', 'free', 'disable', 'enable']), i=rnd.randint(1, n)) for _ in range(rnd.choice([0, 0, 1, 1, 2]))]
        ev.append(dict(op='create', kind=kind or rnd.choice(['exact', 'matching']), path=codes(rnd.choice(paths)), src=dict(h=0, p=0),
                       rport=0, tmpl=[], os=rnd.random() < 0.2, beh=dict(rk=rnd.choice([0, 0, 0, 1, 2]), acts=acts, ar=rnd.choice(ARITIES))))
    for _ in range(rnd.randint(2, 5)):
        x = rnd.random()
        if x < 0.6:
            ev.append(dict(op='recv', v=g.M(pat, rnd.choice(ARGS[:3])), src=SENDERS[0], via=1))
        elif x < 0.8:
            ev.append(dict(op='recv', v=g.M(rnd.choice(paths), []), src=SENDERS[0], via=1))
        elif x < 0.9:
            ev.append(dict(op='enable', i=rnd.randint(1, n)))
        else:
            ev.append(dict(op='recv', v=g.Bn(g.K('none'), [g.M(pat, []), g.M(rnd.choice(paths), [])]), src=SENDERS[0], via=1))
    return ev


HOSTILE_SENDERS = [dict(h=2, p=1), dict(h=3, p=1), dict(h=2, p=2), dict(h=3, p=2), dict(h=2, p=5001), dict(h=3, p=5002), dict(h=1, p=5002)]
HOSTILE_PAYLOADS = [b'', b'\0', b'\0\0\0\0', b'/a', b'#bundle\0', b'\xff' * 7, b'/a\0\0,i\0\0', b'#bundle\0' + bytes(7) + b'\1\xff\xff\xff\xfc']


def arity_histories():
    """Callback ARITY x filter combination: responders whose functions declare 1, 2, 3, 4 parameters or *args, with
    every combination of sender filter x receive-port filter x argument template, for both dispatchers, plain and
    one-shot: each of them runs exactly once for a message that passes its filters, none for one that does not."""
    out = []
    for kind in ('exact', 'matching'):
        for src in (dict(h=0, p=0), dict(h=1, p=5001)):
            for rport in (0, 2):
                for tmpl in ([], [dict(k='eq', v=g.I(1))]):
                    for os_ in (False, True):
                        ev = [dict(op='create', kind=kind, path=codes('/a'), src=src, rport=rport, tmpl=tmpl, os=os_,
                                   beh=dict(rk=0, acts=[], ar=ar)) for ar in ARITIES]
                        ev.append(dict(op='create', kind=kind, path=codes('/a'), src=src, rport=rport, tmpl=tmpl, os=False,
                                       beh=dict(rk=1, acts=[], ar=1)))       # and one that raises, one parameter
                        good = dict(op='recv', v=g.M('/a', [g.I(1), g.S('x')]), src=dict(h=1, p=5001), via=2)
                        ev += [dict(op='recv', v=g.M('/a', [g.I(2)]), src=dict(h=2, p=5001), via=1), good,
                               dict(op='recv', v=g.Bn(g.Lat(2), [g.M('/a', [g.I(1)]), g.M('/a', [g.I(1), g.I(1)])]), src=dict(h=1, p=5001), via=2),
                               good]
                        out.append(ev)
    return out


def deep_bundle(depth, inner=b''):
    """a legal OSC bundle nested `depth` levels deep (20 bytes per level) around `inner` (a message, or nothing)"""
    d = inner
    for _ in range(depth):
        d = b'#bundle\0' + bytes(7) + b'\1' + ((len(d).to_bytes(4, 'big') + d) if d else b'')
    return d


def deep_histories(thorough=False):
    """Degenerate datagrams: bundles nested 8 .. 1200 levels deep (up to 24 KB, legal UDP) around a message or nothing,
    each followed by an ordinary message that must still be delivered; depths up to Dispatch.MaxNest must deliver
    the inner message, deeper ones only must not raise, hang or stop the receiver."""
    plain = dict(src=dict(h=0, p=0), rport=0, tmpl=[], os=False, beh=QUIET)
    ok = dict(h=1, p=5001)
    out = []
    msg = b'/a\0\0,i\0\0\0\0\0\7'
    sets = [([1, 16, 17, 64], msg), ([480, 520], msg), ([700], msg), ([200, 520], b'')]
    if thorough:
        sets += [([8, 400, 1200], msg), ([2000], msg), ([1, 17, 700], b'')]
    for depths, inner in sets:
        ev = [dict(op='create', kind='exact', path=codes('/a'), **plain), dict(op='create', kind='matching', path=codes('/a'), **plain)]
        for k, dep in enumerate(depths):
            ev.append(dict(op='recv', dg=list(deep_bundle(dep, inner)), src=ok, via=1))
            ev.append(dict(op='recv', v=g.M('/a', [g.I(k)]), src=ok, via=1))
        out.append(ev)
    return out


def hostile_histories():
    """Hostile datagrams at socket level (run through real UDP loopback): empty payloads and garbage from other
    loopback addresses, with a source port NUMBER equal / not equal to the library's own ports, to the main and to
    the extra interface - each followed by a normal message that must still be delivered."""
    plain = dict(src=dict(h=0, p=0), rport=0, tmpl=[], os=False, beh=QUIET)
    ok = dict(h=1, p=5001)
    out = []
    for via in (1, 2):
        for snd in HOSTILE_SENDERS:
            ev = [dict(op='create', kind='exact', path=codes('/a'), **plain), dict(op='create', kind='matching', path=codes('/ab'), **plain),
                  dict(op='recv', v=g.M('/a', [g.I(0)]), src=ok, via=via)]
            for k, pl in enumerate(HOSTILE_PAYLOADS):
                ev.append(dict(op='recv', dg=list(pl), src=snd, via=via))
                ev.append(dict(op='recv', v=g.M('/a', [g.I(k + 1)]), src=ok, via=via))
                ev.append(dict(op='recv', v=g.M('/a?', [g.I(k + 1)]), src=snd, via=via))
            out.append(ev)
    return out


def directed_histories():
    rnd = random.Random(1)
    plain = dict(src=dict(h=0, p=0), rport=0, tmpl=[], os=False, beh=QUIET)
    s1 = dict(h=1, p=5001)
    out = []

    def R(v=None, dg=None, via=1):
        e = dict(op='recv', src=s1, via=via)
        if dg is not None:
            e['dg'] = list(dg)
        else:
            e['v'] = v
        return e
    C = lambda kind, path, **kw: dict(dict(op='create', kind=kind, path=codes(path), **plain), **kw)
    # one-shot followed by others on the same path (DESIGN 4 row 14)
    for kind in ('exact', 'matching'):
        out.append([C(kind, '/a', os=True), C(kind, '/a'), C(kind, '/a'), R(g.M('/a', [g.I(1)])), R(g.M('/a', [g.I(1)]))])
        out.append([C(kind, '/a'), C(kind, '/a', os=True), C(kind, '/a', os=True), C(kind, '/a'), R(g.M('/a', [])), R(g.M('/a', []))])
        # template longer than the message (row 14)
        out.append([C(kind, '/a', tmpl=[dict(k='eq', v=g.I(1)), dict(k='any')]), C(kind, '/a'), R(g.M('/a', [g.I(1)])),
                    R(g.M('/a', [])), R(g.M('/a', [g.I(1), g.I(2)]))])
        out.append([C(kind, '/a', tmpl=[dict(k='any'), dict(k='gt', n=5)]), C(kind, '/a'), R(g.M('/a', [g.I(1)])), R(g.M('/a', [g.I(1), g.I(9)]))])
    # prefix / wildcards across parts (row 13)
    out.append([C('matching', '/ab'), C('matching', '/a'), C('matching', '/a/b'), R(g.M('/a', [])), R(g.M('/*', [])), R(g.M('/a*', [])),
                R(g.M('/?', [])), R(g.M('/a?b', [])), R(g.M('/a/b', []))])
    # malformed pattern with an exact responder on the same literal address and a matching one listening
    out.append([C('exact', '/[a'), C('matching', '/a'), R(g.M('/[a', [])), R(g.M('/a', []))])
    out.append([C('matching', '/a'), C('exact', '/{a'), R(g.M('/{a', [])), R(g.M('/a', []))])
    # negative bundle element size, then a normal datagram (row 15)
    neg = b'#bundle\0' + bytes(7) + b'\x01' + b'\xff\xff\xff\xfc'
    out.append([C('exact', '/a'), R(dg=neg), R(g.M('/a', [g.I(1)])), R(dg=b'#bundle\0' + bytes(7) + b'\x01' + b'\xff\xff\xff\xff'),
                R(g.M('/a', [g.I(2)]))])
    big = b'#bundle\0' + bytes(7) + b'\x01' + b'\x7f\xff\xff\xfc' + b'/a\0\0,\0\0\0'
    out.append([C('exact', '/a'), R(dg=big), R(dg=b''), R(dg=b'/a'), R(dg=b'/a\0\0,i\0\0'), R(dg=b'/a\0\0,f\0\0'), R(dg=b'/a\0\0,s\0\0abcd'),
                R(dg=b'/a\0\0,b\0\0\0\0\0\x09ab\0\0'), R(dg=b'/a\0\0,]\0\0'), R(dg=b'/a\0\0,[\0\0'), R(g.M('/a', []))])
    # filters
    out.append([C('exact', '/a', src=dict(h=1, p=5001)), C('exact', '/a', src=dict(h=1, p=0)), C('exact', '/a', src=dict(h=2, p=0)),
                C('exact', '/a', rport=2), C('exact', '/a', rport=1),
                R(g.M('/a', [])), dict(op='recv', src=dict(h=1, p=5002), via=2, v=g.M('/a', [])),
                dict(op='recv', src=dict(h=2, p=5001), via=1, v=g.M('/a', []))])
    # enable / disable / free / setfunc / cmdperiod
    out.append([C('exact', '/a'), C('exact', '/a'), C('exact', '/a'), dict(op='disable', i=1), R(g.M('/a', [])), dict(op='enable', i=1),
                R(g.M('/a', [])), dict(op='setfunc', i=2, fn=1, beh=QUIET), R(g.M('/a', [])), dict(op='setperm', i=3, b=True), dict(op='cmdperiod'),
                R(g.M('/a', [])), dict(op='free', i=3), R(g.M('/a', []))])
    # faults in callbacks: a raising callback must not stop the delivery, a one-shot that raised is spent
    boom = dict(rk=1, acts=[])
    for kind in ('exact', 'matching'):
        out.append([C(kind, '/a', os=True, beh=boom), C(kind, '/a'), R(g.M('/a', [g.I(1)])), R(g.M('/a', [g.I(2)])), R(g.M('/a', [g.I(3)]))])
        out.append([C(kind, '/a', beh=boom), C(kind, '/a'), C(kind, '/a', beh=dict(rk=2, acts=[])), R(g.M('/a', [])), R(g.M('/a', [])), R(g.M('/a', []))])
        out.append([C(kind, '/a'), dict(op='oneshot', i=1), dict(op='setfunc', i=1, fn=1, beh=boom), dict(op='oneshot', i=1),
                    R(g.M('/a', [])), R(g.M('/a', []))])
    out.append([C('exact', '/a', beh=boom), C('matching', '/a'), C('matching', '/a', beh=boom), C('exact', '/a'),
                R(g.M('/a', [])), R(g.M('/a', []))])
    out.append([C('exact', '/a', beh=boom, os=True), C('exact', '/b'),
                R(g.Bn(g.K('none'), [g.M('/a', [g.I(1)]), g.M('/b', []), g.M('/a', [g.I(2)])])), R(g.M('/a', []))])
    # callbacks that free / disable / enable responders (others and themselves) from inside
    for kind in ('exact', 'matching'):
        out.append([C(kind, '/a', beh=dict(rk=0, acts=[dict(op='free', i=2)])), C(kind, '/a'), C(kind, '/a'), R(g.M('/a', [])), R(g.M('/a', []))])
        out.append([C(kind, '/a'), C(kind, '/a', beh=dict(rk=0, acts=[dict(op='disable', i=1), dict(op='free', i=2)])), C(kind, '/a'),
                    R(g.M('/a', [])), R(g.M('/a', [])), dict(op='enable', i=1), R(g.M('/a', []))])
        out.append([C(kind, '/a', beh=dict(rk=1, acts=[dict(op='disable', i=1)])), C(kind, '/a', beh=dict(rk=0, acts=[dict(op='enable', i=1)])),
                    R(g.M('/a', [])), R(g.M('/a', [])), R(g.M('/a', []))])
        out.append([C(kind, '/a'), dict(op='disable', i=1), C(kind, '/b', beh=dict(rk=0, acts=[dict(op='enable', i=1)])), C(kind, '/a'),
                    R(g.M('/b', [])), R(g.M('/a', [])), R(g.M('/*', []))])
    out.append([C('exact', '/a', beh=dict(rk=0, acts=[dict(op='free', i=3)])), C('matching', '/a', beh=dict(rk=0, acts=[dict(op='free', i=4)])),
                C('matching', '/a'), C('exact', '/a'), R(g.M('/a', [])), R(g.M('/a', []))])
    # bundles
    out.append([C('exact', '/a', os=True), C('exact', '/a'), C('exact', '/b'),
                R(g.Bn(g.Lat(2), [g.M('/a', [g.I(1)]), g.M('/b', []), g.M('/a', [g.I(2)])])),
                R(g.Bn(g.K('none'), [g.M('/a', []), g.Bn(g.Lat(1), [g.M('/b', [g.S('x')])])]))])
    return out


def sim_histories(ctx, num, cfg='DispatchModel_sim.cfg', depth=14, seed_off=1, sub='s'):
    behs, r = tlc.simulate_behaviours('DispatchModel', cfg, os.path.join(ctx.work, sub), num=num, depth=depth, seed=ctx.seed + seed_off)
    ctx.cov['transitions'] += r.generated
    arnd = random.Random(ctx.seed + 77 + seed_off)
    out = []
    for b in behs:
        ev = []
        for act, st in b[1:]:
            op = st['op']
            if op['op'] == 'hostile':
                dg = {'empty': b'', 'garbage': b'\xff' * 7, 'deep': deep_bundle(40, b'/a\0\0,\0\0\0')}[op['k']]
                ev.append(dict(op='recv', src=op['src'], via=op['via'], dg=list(dg)))
            elif op['op'] == 'recv':
                m = op['m']
                ev.append(dict(op='recv', src=op['src'], via=op['via'], v=dict(t='m', a=m['a'], args=m['args'])))
            else:
                if 'beh' in op:     # arity is irrelevant to the model: draw one for the real function
                    op = dict(op, beh=dict(op['beh'], ar=arnd.choice(ARITIES)))
                ev.append(op)
        if ev:
            out.append(ev)
    return out


def fault_datagrams(ctx):
    r = tlc.run('OscFaultModel', 'OscFaultModel_emit.cfg', os.path.join(ctx.work, 'm5'), workers=1, timeout=600,
                env={'JAVA_TOOL_OPTIONS': '-Xss64m'})
    if not r.ok:
        raise MachineryError('OscFaultModel emit failed: %s\n%s' % (r.violated, r.output[-2000:]))
    out = []
    for line in r.output.splitlines():
        if line.startswith('<<"DGRAM"'):
            o = json.loads(tlc.parse_value(line)[1])
            out.append((bytes(o['b'] if isinstance(o['b'], list) else []), o['k']))
    if len(out) < 100:
        raise MachineryError('OscFaultModel printed %d datagrams' % len(out))
    return out


ACTS = ['a', 'b', 'c', 'd']


def reg_history(rnd):
    beh = {a: rnd.choice([dict(b='log', x=''), dict(b='log', x=''), dict(b='rm', x=rnd.choice(ACTS)), dict(b='add', x=rnd.choice(ACTS))])
           for a in ACTS}
    ev = []
    for _ in range(rnd.randint(5, 30)):
        x = rnd.random()
        if x < 0.35:
            cls = rnd.choice(['StartUp', 'ShutDown', 'CmdPeriod'])
            y = rnd.random()
            if y < 0.5:
                ev.append(dict(op='sys_add', cls=cls, a=rnd.choice(ACTS), arg=rnd.randint(0, 3)))
            elif y < 0.7:
                ev.append(dict(op='sys_remove', cls=cls, a=rnd.choice(ACTS)))
            elif y < 0.75:
                ev.append(dict(op='sys_remove_all', cls=cls))
            else:
                ev.append(dict(op='sys_run', cls=cls))
        elif x < 0.7:
            cls = rnd.choice(['ServerBoot', 'ServerQuit', 'ServerTree'])
            key = rnd.choice(['s1', 's2', 'default', 'all'])
            y = rnd.random()
            if y < 0.5:
                ev.append(dict(op='srv_add', cls=cls, key=key, a=rnd.choice(ACTS), arg=rnd.randint(0, 3)))
            elif y < 0.68:
                ev.append(dict(op='srv_remove', cls=cls, key=key, a=rnd.choice(ACTS)))
            elif y < 0.72:
                ev.append(dict(op='srv_remove_server', cls=cls, key=key))
            elif y < 0.75:
                ev.append(dict(op='srv_remove_all', cls=cls))
            else:
                ev.append(dict(op='srv_run', cls=cls, server=rnd.choice(['s1', 's2'])))
        else:
            obj, msg, l = rnd.choice(['o1', 'o2']), rnd.choice(['m1', 'm2']), rnd.choice(['l1', 'l2', 'l3'])
            y = rnd.random()
            if y < 0.45:
                ev.append(dict(op='nc_register', obj=obj, msg=msg, l=l, act=rnd.choice(['x', 'y', 'z']), once=rnd.random() < 0.25))
            elif y < 0.6:
                ev.append(dict(op='nc_unregister', obj=obj, msg=rnd.choice([msg, msg, '']), l=''))
                if ev[-1]['msg'] and rnd.random() < 0.7:
                    ev[-1]['l'] = l
            elif y < 0.63:
                ev.append(dict(op='nc_clear'))
            else:
                ev.append(dict(op='nc_notify', obj=obj, msg=msg, arg=rnd.randint(0, 9)))
    return dict(kind='reg', beh=beh, ev=ev, src='random')


def reg_directed():
    beh = {a: dict(b='log', x='') for a in ACTS}
    out = []
    for cls in ('ServerBoot', 'ServerQuit', 'ServerTree'):
        out.append(dict(kind='reg', beh=beh, src='directed', ev=[
            dict(op='srv_add', cls=cls, key='s1', a='a', arg=1), dict(op='srv_add', cls=cls, key='s1', a='b', arg=2),
            dict(op='srv_add', cls=cls, key='all', a='c', arg=3), dict(op='srv_add', cls=cls, key='default', a='d', arg=4),
            dict(op='srv_run', cls=cls, server='s1'), dict(op='srv_run', cls=cls, server='s2'),
            dict(op='srv_remove', cls=cls, key='s1', a='a'), dict(op='srv_run', cls=cls, server='s1'),
            dict(op='srv_remove', cls=cls, key='all', a='c'), dict(op='srv_run', cls=cls, server='s2'),
            dict(op='srv_remove_server', cls=cls, key='s1'), dict(op='srv_run', cls=cls, server='s1')]))
    beh2 = dict(a=dict(b='rm', x='c'), b=dict(b='log', x=''), c=dict(b='add', x='d'), d=dict(b='log', x=''))
    for cls in ('StartUp', 'ShutDown', 'CmdPeriod'):
        out.append(dict(kind='reg', beh=beh2, src='directed', ev=[
            dict(op='sys_add', cls=cls, a='a', arg=1), dict(op='sys_add', cls=cls, a='c', arg=2), dict(op='sys_add', cls=cls, a='b', arg=3),
            dict(op='sys_run', cls=cls), dict(op='sys_add', cls=cls, a='c', arg=5), dict(op='sys_add', cls=cls, a='a', arg=6),
            dict(op='sys_remove', cls=cls, a='a'), dict(op='sys_run', cls=cls), dict(op='sys_run', cls=cls),
            dict(op='sys_remove_all', cls=cls), dict(op='sys_run', cls=cls)]))
    return out


# ------------------------------------------------------------------ running / judging
def run_cases(ctx, cases):
    for i, c in enumerate(cases):
        c['id'] = i
    inputs = [dict(cases=[{k: w for k, w in c.items() if k != 'src'} for c in cases[j::16]]) for j in range(16)]
    inputs = [i for i in inputs if i['cases']]
    outs = ctx.run_drivers(DRIVER, inputs, mode='rt')
    traces = {t['id']: t for o in outs for t in o['traces']}
    if len(traces) != len(cases):
        raise MachineryError('driver returned %d traces for %d cases' % (len(traces), len(cases)))
    return traces


SPEC = dict(match='TraceOscMatch', dispatch='TraceDispatch', reg='TraceRegistries')
WHAT = dict(
    MatcherRaised='the matcher raised instead of answering', PrefixMatch='a pattern matched an address of which it only matches a prefix',
    WildcardCrossesSlash="a wildcard matched across '/'", FalseMatch='the matcher accepted an address OSC 1.0 rejects',
    MissedMatch='the matcher rejected an address OSC 1.0 accepts',
    MalformedHang='a malformed datagram hung the receiver', MalformedRaised='a malformed datagram raised into the receiver',
    MalformedStuck='after a malformed datagram the dispatch clock stopped', MalformedFired='a malformed datagram invoked a responder',
    CallbackRaised='an exception raised by a responder\'s callback reached the receiver',
    CallbackStuck='after a callback raised the dispatch clock stopped', CallbackHang='the receiver hung',
    Flood='one message invoked more than 300 callbacks', CallbackFlood='one message invoked more than 300 callbacks',
    Hang='the receiver hung', Raised='an exception escaped into the receiver', Stuck='the dispatch clock stopped',
    FreedNeverFires='a freed responder was invoked', DisabledNeverFires='a disabled responder was invoked',
    EachOnce='a responder was invoked more than once for one message', ShouldNotFire='a responder was invoked that should not fire',
    ShouldFire='a responder that should fire was not invoked', OrderIsRegistrationOrder='responders on one path fired out of registration order',
    CallbackArguments='a responder got the wrong sender / port / function', CallbackTime='a responder got the wrong time',
    RanUnregistered='an action that is not registered ran', RanRemovedOrWrongArgs='an action ran that was removed earlier in the run (or with other arguments)',
    DidNotRunRegistered='a registered action did not run', RegistrationOrder='actions ran out of registration order',
    RunRaised='run raised', NotifyRaised='notify raised', NotifiedUnregistered='an unregistered listener was notified',
    DidNotNotifyRegistered='a registered listener was not notified',
)


def brief(c, t, at):
    if c['kind'] == 'match':
        return 'pattern %r: matched %s raised %s' % (bytes(c['p']).decode('latin-1'),
                                                     [bytes(h).decode('latin-1') for h in t['hits']][:6], t['raised'])
    e = t['ev'][at - 1]
    if c['kind'] == 'dispatch':
        def bh(b):
            if not b or (not b['rk'] and not b['acts']):
                return ''
            return ' [%s%s]' % ('raises@%d ' % b['rk'] if b['rk'] else '', ','.join('%s %d' % (a['op'], a['i']) for a in b['acts']))
        resp = ['%d:%s %s%s%s' % (i + 1, x['kind'], bytes(x['path']).decode('latin-1'), ' one-shot' if x.get('os') else '', bh(x.get('beh')))
                for i, x in enumerate(y for y in c['ev'] if y['op'] == 'create')]
        return 'step %d: datagram %r from %s -> %s, invoked %s; responders %s' % (
            at, bytes(e['dg'])[:60], e['src'], e['out'], [(x['r'], bytes(x['a']).decode('latin-1')) for x in e['log']], resp)
    return 'step %d: %s -> %s' % (at, {k: w for k, w in e.items() if k != 'log'}, e.get('log'))


def judge(ctx, cases, traces):
    res = {}
    all_rej = {}

    def one(kind):
        module = SPEC[kind]
        sub = [traces[c['id']] for c in cases if c['kind'] == kind]
        t0 = time.time()
        verdicts, _ = oscv.validate(ctx, module, module + '.cfg', sub, tag=kind, all_rej=all_rej)
        ctx.cov.setdefault('phase_wall_s', {})['validate_' + kind] = round(time.time() - t0, 1)
        return verdicts
    kinds = [k for k in SPEC if any(c['kind'] == k for c in cases)]
    with ThreadPoolExecutor(max_workers=3) as ex:      # the trace specs side by side
        for verdicts in ex.map(one, kinds):
            res.update(verdicts)
    for c in cases:
        v = res[c['id']]
        t = traces[c['id']]
        if c['kind'] == 'dispatch':
            recvs = [e for e in t['ev'] if e['op'] == 'recv']
            if any(e['log'] for e in recvs) and len(recvs) >= 2:
                ctx.nontrivial(c['ev'])
        elif c['kind'] == 'match':
            if t['hits'] and any(ch in c['p'] for ch in codes('?*[{')):
                ctx.nontrivial(c['p'])
        elif any(e.get('log') for e in t['ev']):
            ctx.nontrivial(c['ev'])
        if v is None:
            continue
        # TraceDispatch judges every delivery of a history (and goes on after a rejection): report each
        for v in sorted(all_rej.get(c['id'], [v])):
            at, why = v[0], v[1]
            det = v[2] if len(v) > 2 else []
            det = '+'.join(sorted(det)) if isinstance(det, list) else str(det)
            if c['kind'] == 'match':
                sig = 'match:%s' % why
            elif c['kind'] == 'dispatch':
                sig = ('malformed:%s:%s' if why.startswith('Malformed') else 'dispatch:%s:%s') % (why, det)
            else:
                e = t['ev'][at - 1]
                sig = 'registry:%s:%s' % (e.get('cls', 'NotificationCenter'), why)
            rp = {k: w for k, w in c.items() if k != 'id'}
            if c['kind'] == 'dispatch':
                # replay exactly the datagrams that were delivered
                rp['ev'] = [dict(op='recv', dg=e['dg'], src=e['src'], via=e['via']) if e['op'] == 'recv' else
                            {k: w for k, w in e.items() if k != 'exc'} for e in t['ev'][:at]]
            ctx.violation(sig, '%s [%s]' % (WHAT.get(why, why), brief(c, t, at)[:600]),
                          dict(kind='case', case=rp, why=why, detail=det, rejected_at=at))
    return res


def run(ctx):
    thorough = not ctx.quick
    sfx = '_thorough' if thorough else ''
    # design models, side by side (each TLC run in a work directory of its own)
    def mc(sub, module, cfg, cover, what, label=None):
        try:
            r = tlc.run(module, cfg, os.path.join(ctx.work, sub), workers=max(2, NCPU // 2), coverage=True, timeout=1500,
                        env={'JAVA_TOOL_OPTIONS': '-Xss64m'})      # deep recursion: datagrams nested dozens of levels
        except tlc.TlcError as e:
            raise tlc.TlcError('%s/%s: %s' % (module, cfg, e))
        run_ = dict(module=module, cfg=cfg, **r.summary())
        if label:
            run_['label'] = label
        run_['actions_taken'] = {k: v[0] for k, v in sorted(r.coverage.items()) if k in cover}
        ctx.cov['model_runs'].append(run_)
        ctx.cov['states'] += r.distinct
        ctx.cov['transitions'] += r.generated
        for a in cover:
            if r.coverage.get(a, (0, 0))[1] == 0:
                raise MachineryError('vacuity: action %s never taken in %s/%s' % (a, module, cfg))
        ctx.expect_ok(r, what)

    jobs = dict(
        match=lambda: mc('m1', 'OscMatchModel', 'OscMatchModel%s.cfg' % sfx, ('AddChar',), 'OscMatchModel (LiteralLaw, PartsLaw, MalformedLaw, StarLaw)'),
        base=lambda: mc('m2', 'DispatchModel', 'DispatchModel%s.cfg' % sfx,
                        ('Create', 'Enable', 'Disable', 'Free', 'OneShot', 'SetFunc', 'SetPerm', 'CmdPeriod', 'Recv'),
                        'DispatchModel (FreedNeverFires, DisabledNeverFires, SpentNeverFires, FaultTransparent, SpecIsLegal, ...)'),
        # three responders on up to three paths, wildcard messages matching several, callbacks acting on other paths
        paths=lambda: mc('m3', 'DispatchModel', 'DispatchModel_paths%s.cfg' % sfx, ('Create', 'Recv'),
                         'DispatchModel paths mode (UntouchedFireOnce, SpecIsLegal, ...)', label='paths'),
        sims=lambda: sim_histories(ctx, 1500 if thorough else 150, 'DispatchModel_sim.cfg', 14, sub='s1') +
        sim_histories(ctx, 1000 if thorough else 120, 'DispatchModel_paths_sim.cfg', 6, seed_off=7, sub='s2'),
        small=lambda: (mc('m4', 'DispatchImpl', 'DispatchImpl.cfg', ('Begin', 'Call', 'End'), 'DispatchImpl (delivery loop over a copy refines Fire)'),
                       mc('m4', 'OscFaultModel', 'OscFaultModel%s.cfg' % sfx, ('Trunc', 'Word', 'ByteF', 'Extend'), 'OscFaultModel (decoder total on damaged datagrams)'),
                       mc('m4', 'RegistriesModel', 'RegistriesModel.cfg', ('Add', 'Remove', 'RemoveAll', 'Run'), 'RegistriesModel'),
                       fault_datagrams(ctx))[-1],
    )
    # the match table needs no model output: drive and judge it while the models run
    mcases = match_cases(4 if thorough else 3, 4 if thorough else 3)
    jobs['matchtable'] = lambda: judge(ctx, mcases, run_cases(ctx, mcases))
    tm0 = time.time()
    with ThreadPoolExecutor(max_workers=len(jobs)) as ex:
        futs = {k: ex.submit(f) for k, f in jobs.items()}
        res_ = {k: f.result() for k, f in futs.items()}
    sims, faults = res_['sims'], res_['small']
    ctx.cov.setdefault('phase_wall_s', {})['models'] = round(time.time() - tm0, 1)

    t0 = time.time()
    phases = ctx.cov.setdefault('phase_wall_s', {})
    rnd = random.Random(ctx.seed)
    cases = []
    nmatch = len(mcases)
    ctx.cov['fault_datagrams'] = dict(total=len(faults), bad=sum(1 for _, k in faults if k == 'bad'))
    fb = [b for b, _ in faults]
    hs = [dict(kind='dispatch', ev=h, src='directed') for h in directed_histories()]
    hs += [dict(kind='dispatch', ev=h, src='model') for h in sims]
    hs += [dict(kind='dispatch', ev=h, src='directed') for h in multipath_histories()]
    hs += [dict(kind='dispatch', ev=h, src='directed') for h in arity_histories()]
    hs += [dict(kind='dispatch', ev=h, src='hostile/udp', udp=True) for h in hostile_histories()]
    # (expensive to decode in TLC: spread them over the validation batches)
    deep = deep_histories(thorough)
    step = max(1, len(hs) // (2 * len(deep) + 1))
    for k, h in enumerate(deep):
        hs.insert((2 * k + 1) * step, dict(kind='dispatch', ev=h, src='deep'))
        if k in (1, 2) or (thorough and k % 2 == 0):      # the deep ones also through the real receive thread
            hs.insert((2 * k + 2) * step, dict(kind='dispatch', ev=h, src='deep/udp', udp=True))
    ctx.cov['spec_behaviours_replayed'] = sum(1 for h in hs if h['src'] == 'model')
    # every fault datagram once, each followed by a normal message
    plain = dict(src=dict(h=0, p=0), rport=0, tmpl=[], os=False, beh=QUIET)
    for i in range(0, len(fb), 2):
        ev = [dict(op='create', kind='exact', path=codes('/a'), **plain), dict(op='create', kind='matching', path=codes('/ab'), **plain)]
        for b in fb[i:i + 2]:
            ev.append(dict(op='recv', dg=list(b), src=SENDERS[0], via=1))
            ev.append(dict(op='recv', v=g.M('/a', [g.I(1)]), src=SENDERS[0], via=1))
        hs.append(dict(kind='dispatch', ev=ev, src='faults'))
    hs += [dict(kind='dispatch', ev=random_history(rnd, fb), src='random') for _ in range(4000 if thorough else 300)]
    hs += [dict(kind='dispatch', ev=multipath_random(rnd), src='random') for _ in range(2000 if thorough else 200)]
    # a share of the histories goes through real UDP loopback sockets and the library's receive thread
    for k, h in enumerate(hs):
        if h['src'] == 'directed' or (h['src'] in ('random', 'model') and k % 5 == 0):
            hs.append(dict(kind='dispatch', ev=h['ev'], src=h['src'] + '/udp', udp=True))
    regs = reg_directed() + [reg_history(rnd) for _ in range(3000 if thorough else 200)]
    cases += hs + regs
    phases['generate'] = round(time.time() - t0, 1)
    t0 = time.time()
    traces = run_cases(ctx, cases)
    phases['drivers'] = round(time.time() - t0, 1)
    t0 = time.time()
    ctx.cov['evaluations'] += len(cases) + len(mcases)
    judge(ctx, cases, traces)
    phases['validate'] = round(time.time() - t0, 1)
    hangs = sum(1 for c in hs for e in traces[c['id']]['ev'] if e['op'] == 'recv' and e['out'] != 'ok')
    ctx.cov['recv_events'] = sum(1 for c in hs for e in traces[c['id']]['ev'] if e['op'] == 'recv')
    ctx.cov['recv_not_ok'] = hangs
    ctx.cov['cases_by_kind'] = dict(match=nmatch, dispatch=len(hs), dispatch_via_udp_loopback=sum(1 for h in hs if h.get('udp')),
                                    registries=len(regs))
    h = hs[len(hs) // 2]
    ctx.sample(dict(history=[{k: w for k, w in e.items() if k != 'dg'} for e in traces[h['id']]['ev']][:8]))
    ctx.sample(dict(registries=traces[regs[-1]['id']]['ev'][:6]))
    ctx.cov['rule'] = ('all patterns "/"+<=%d chars over {a b / ? * [ ] ! - { , }} x all addresses "/"+<=%d chars over {a b /}; '
                       'dispatch histories: directed + TLC-simulated DispatchModel behaviours + every TLC-damaged datagram followed by '
                       'a normal message + seeded random histories (<= 6 responders, exact/matching, src/port/template filters, one-shot, '
                       'enable/disable/free/function replacement/permanent/CmdPeriod, messages, bundles, damaged and random datagrams); '
                       'registry histories: directed + seeded random over 3 SystemAction classes, 3 ServerAction classes, NotificationCenter; '
                       'non-trivial = a history with >= 2 deliveries and at least one invocation, a wildcard pattern with a match, '
                       'a registry history with a non-empty run; distinct by content' % ((4, 4) if thorough else (3, 3)))
    ctx.cov['exhaustive'] = True
    ctx.assumptions += [
        'order is demanded among responders registered on the same path of the same dispatcher; order across paths / between the exact and '
        'the matching dispatcher is not (the recv functions are a set in the library)',
        'callbacks are scripted: they declare 1-4 parameters or *args (what they are not handed is read from the library\'s dispatch '
        'frame for the log), they log, may free/disable/enable any responder (themselves included) from inside and may raise on '
        'their k-th invocation; a responder that a callback of the same delivery freed/disabled/enabled may or may not fire in that '
        'delivery (the statement gives both readings), everything else is demanded exactly; enable() after free() re-enables (code behaviour)',
        'the arrival time passed to callbacks is compared for bundles with a time tag only (bare messages get the wall clock)',
        'datagrams that parse but use options a receiver need not support (no type tag string, tags other than i f s b, arrays, non-ASCII, '
        'nested bundle time below the enclosing one, pattern forms OSC 1.0 leaves open) only must not raise or hang',
        'RT threads are real: delivery waits for a marker scheduled behind the dispatch on SystemClock (harness/oscrt.deliver); '
        'a hang is detected with a 2 s real-time alarm',
        'most datagrams enter at OscInterface._handle_request; about a fifth of the histories are sent through real UDP loopback '
        'sockets (sender address filters then use the sockets\' real ports); TCP is not exercised',
    ]


def replay(ctx, rp):
    c = dict(rp['replay']['case'])
    c.setdefault('src', 'replay')
    cases = [c]
    traces = run_cases(ctx, cases)
    res = judge(ctx, cases, traces)
    ctx.cov['evaluations'] = 1
    ctx.sample(dict(verdict=res[0]))


MANIFEST = dict(
    category='model_checking',
    text=('OSC 1.0 address-pattern matching is a recursive TLA+ operator (per part: literal, ?, *, [set], [!set], ranges, {a,b}; whole '
          'length; malformed matches nothing); TLC checks its laws and then decides, for every pattern of up to 3 (thorough 4) characters '
          'after "/" over the 12-symbol pattern alphabet and every address over {a,b,/}, whether the function the matching dispatcher '
          'calls agrees. Dispatch is a TLA+ state machine (Create/Enable/Disable/OneShot/Free/SetFunc/SetPerm/CmdPeriod/Recv with '
          'src/port/template filters) whose invariants FreedNeverFires, DisabledNeverFires, OneShotOnce, OrderIsRegistrationOrder, '
          'NoRemovalDuringDelivery are model-checked; real OscFunc objects in RT mode are driven through directed, TLC-simulated and '
          'random histories with datagrams entering at OscInterface._handle_request, and TLC decides from the recorded callback logs, '
          'using the total OSC 1.0 decoder of Osc.tla to classify each datagram (well-formed: exactly the expected responders; '
          'malformed - TLC-chosen truncations, size fields -4/-1/0/huge, broken tags, random bytes: nothing fires, nothing raises, no '
          'hang, the next datagram is delivered). Registries: histories on SystemAction/ServerAction/NotificationCenter validated '
          'against an ordered-map spec.'),
    note=('Not decided: socket-level behaviour; order of invocation across different paths / dispatchers; arrival time of untagged '
          'messages; datagrams in the grey zone of OSC 1.0 (only no raise / no hang); whether a responder touched by a callback of the same delivery fires in it; regex '
          'backtracking time beyond the 2 s watchdog. RT dispatch runs on real threads (quiescence by a marker task), not yet under '
          'the deterministic scheduler. Trusted: TLC, the projection in drivers/c18_dispatch.py and harness/oscrt.py.'),
    technique='TLA+ pattern-matching / dispatch / registry specs model-checked by TLC; exhaustive match table and batch trace validation of real responder histories incl. TLC-generated malformed datagrams',
    design_ref='DESIGN.md section 3 / C18',
    engine='Dispatch',
)
