"""C06 - OSC encoding round-trips, conforms to OSC 1.0, is sized correctly; clumping.

Decided by: Osc.tla (OSC 1.0 as an executable reference: Enc, total Dec, Coerce, MustRefuse, EncLen),
OscSize.tla (prediction >= truth; splitter law; the library's formulas and accumulator loop as L2),
model-checked in OscModel.tla / OscClump.tla; bound to the real code by TraceOsc.tla:
 S->C  every value of the model's pool is printed by TLC, realised as a Python argument list, encoded
       by the real OscInterface._build_msg/_build_bundle, decoded by OscPacket, sized by NetAddr._calc_*
 C->S  seeded random messages/bundles (nesting <= 4, up to 40 args), large values around the UDP limit,
       bundles sent through send_clumped_bundles / sync (datagrams captured at the interface), and
       SynthDef._do_send's size-based choice.
TLC decides every verdict; Python generates inputs, realises/projects values and classifies."""
import json
import random

from harness import oscgen as g
from harness import oscv
from harness import tlc
from harness.common import MachineryError

DRIVER = 'drivers/c06_osc.py'
LIMIT = 65504


# ------------------------------------------------------------------ case generation
def emitted_cases(ctx, cfg):
    """S->C: the pool of OscModel, printed by TLC itself"""
    r = tlc.run('OscModel', cfg, ctx.work, workers=1, timeout=600)
    if not r.ok:
        raise MachineryError('OscModel emit run failed: %s\n%s' % (r.violated, r.output[-2000:]))
    ctx.cov['model_runs'].append(dict(module='OscModel', cfg=cfg, label='emit pool', **r.summary()))
    out = []
    for line in r.output.splitlines():
        if line.startswith('<<"CASE"'):
            o = json.loads(tlc.parse_value(line)[1])
            out.append(dict(kind='enc', v=fix_empty(o['v']), off=o['off'], src='model'))
    if not out:
        raise MachineryError('OscModel printed no cases')
    return out


def fix_empty(v):
    """ToJson prints an empty sequence as [] but an empty *record field* may come back as {}; normalise"""
    if isinstance(v, dict):
        return {k: ([] if w == {} else fix_empty(w)) for k, w in v.items()}
    if isinstance(v, list):
        return [fix_empty(x) for x in v]
    return v


def random_enc_cases(rnd, n):
    out = []
    for i in range(n):
        bad = rnd.random() < 0.35
        x = rnd.random()
        if x < 0.5:
            v = g.rand_msg(rnd, rnd.choice([0, 1, 2, 4]), rnd.choice([3, 8, 8, 16, 40]), bad)
        else:
            v = g.rand_bundle(rnd, rnd.choice([0, 1, 2, 4]), bad)
        out.append(dict(kind='enc', v=v, src='random'))
    return out


def directed_enc_cases():
    M, I, S, B, K, F, Bn, Lat = g.M, g.I, g.S, g.B, g.K, g.F, g.Bn, g.Lat
    vs = [M('/a', [S(s)]) for s in g.STRS] + [M(a, []) for a in g.ADDRS]
    # non-ASCII addresses at every depth: top level, completion message, bundle element, nested bundle
    for a in [x for x in g.ADDRS if not x.isascii()]:
        vs += [M(a, [I(1), S('x')]), M('/s_new', [S('x'), M(a, [I(1)])]), M('/a', [M('/b', [M(a, [])])]),
               Bn(Lat(0), [M(a, [I(1)]), M('/b', [])]), Bn(Lat(0), [Bn(Lat(1), [M(a, [S('ñ')])])])]
    vs += [M('/a', [B(bytes(range(1, n + 1)), py)]) for n in range(0, 10) for py in (None, 'bytearray', 'memoryview')]
    vs += [M('/a', [I(n)]) for n in g.INTS + g.BIGINTS] + [M('/a', [F(x)]) for x in g.FLOATS + [1e39, -1e39, float('nan')]]
    vs += [M('/a', [K(t)]) for t in 'TFNE'] + [M('/a', [{'t': 'x', 'py': p}]) for p in
                                                ('dict', 'tuple', 'set', 'complex', 'intlist', 'listlist', 'object')]
    vs += [M('/a', [S('a\0b')]), M('/a\0b', [I(1)]), M('', [I(1)]), M('/a', [K('['), I(1)]), M('/a', [K(']')]),
           M('/a', [K('['), K('['), I(1), K(']'), S('x'), K(']'), I(2)]), M('/a', [K('['), K(']')])]
    # completion messages / bundles, depth 4
    inner = M('/n_set', [I(1000), S('freq'), F(440.0)])
    for d in range(4):
        inner = M('/s_new', [S('default'), I(-1), inner])
        vs.append(inner)
    vs.append(M('/d_recv', [B(b'SCgf' + bytes(37)), Bn(Lat(0.5), [M('/s_new', [S('x'), I(1)]), M('/n_run', [I(1), K('T')])])]))
    vs.append(M('/d_recv', [B(b'SCgf' + bytes(37)), Bn(K('none'), [])]))
    # time rules
    for t1 in (K('none'), K('neg'), Lat(0), Lat(0.5), Lat(2)):
        vs.append(Bn(t1, []))
        vs.append(Bn(t1, [M('/a', [I(1)]), M('/b', [S('ñ')])]))
        for t2 in (K('none'), K('neg'), Lat(0), Lat(0.5), Lat(2)):
            vs.append(Bn(t1, [M('/a', []), Bn(t2, [M('/b', [])])]))
            vs.append(Bn(t1, [Bn(t2, [Bn(t2, [Bn(t2, [M('/deep', [I(4)])])])])]))
    vs.append(Bn(Lat(0), [{'t': 'x', 'py': 'dict'}]))
    return [dict(kind='enc', v=v, src='directed') for v in vs]


def size_cases(rnd, n):
    """large values around the UDP limit: only lengths are compared"""
    out = []
    for i in range(n):
        k = rnd.choice(['blob', 'str', 'mix', 'bundle'])
        if k == 'blob':
            v = g.M('/b_setn', [g.I(1), {'t': 'b', 'z': rnd.choice([LIMIT - 40 + rnd.randint(0, 60), rnd.randint(2000, 70000)])}])
        elif k == 'str':
            v = g.M('/cmd', [{'t': 's', 'z': rnd.randint(2000, 66000)}, g.S('ñandú' * rnd.randint(1, 400))])
        elif k == 'mix':
            v = g.M('/d_recv', [{'t': 'b', 'z': rnd.randint(60000, 66000)},
                                g.M('/s_new', [g.S('ñ' * rnd.randint(0, 9)), g.I(-1), {'t': 'b', 'z': rnd.randint(1, 3000)}])])
        else:
            v = g.Bn(g.Lat(rnd.choice([0, 0.25])), [g.M('/x', [{'t': 'b', 'z': rnd.randint(1, 9000)}, g.S('ü' * rnd.randint(0, 50))])
                                                   for _ in range(rnd.randint(1, 12))])
        out.append(dict(kind='size', v=v, src='random'))
    return out


NONASCII = [False]      # set while generating cases whose addresses carry non-ASCII text


def el(k, n, completion=False):
    """bundle element number k (the id travels in the address) carrying a blob of n bytes (0: no blob) and,
    optionally, a completion message (nested list -> blob).  With NONASCII the address is '/ñ' + 5 digits: 7
    characters but 8 UTF-8 bytes, i.e. 12 bytes on the wire where a character count would say 8."""
    args = [{'t': 'b', 'z': n}] if n else []
    if completion:
        args.append(g.M('/b_ñ' if NONASCII[0] else '/b_query', [g.I(k), g.S('ñ' * (k % 5))]))
    return g.M(('/ñ%05d' if NONASCII[0] else '/%07d') % k, args)


def wrap(k, n, kind, completion=False):
    """element number k of KIND: 'm' a plain message; 'b' a nested bundle (own latency) with one message; 'B' a nested
    bundle with three messages; 'n' a nested bundle holding a nested bundle and a message.  Every message inside
    carries the element id in its address; nested latencies (4 s, 8 s) are above every outer latency used."""
    if kind == 'm':
        return el(k, n, completion)
    if kind == 'b':
        return g.Bn(g.Lat(4), [el(k, n, completion)])
    if kind == 'B':
        return g.Bn(g.Lat(4), [el(k, n, completion), el(k, 0), el(k, 1)])
    if kind == 'n':
        return g.Bn(g.Lat(4), [g.Bn(g.Lat(8), [el(k, n, completion)]), el(k, 0)])
    raise AssertionError(kind)


def clump_cases(rnd, nrand):
    cs = []

    def add(site, blobs, lat, src, completion=False, kinds='m', nonascii=False):
        NONASCII[0] = nonascii
        cs.append(dict(kind='clump', site=site, lat=lat, src=src,
                       els=[wrap(i + 1, n, kinds[i % len(kinds)], completion and i % 2 == 0) for i, n in enumerate(blobs)]))
    for site in ('clumped', 'sync'):
        add(site, [600] * 110, 0.2, 'directed')                  # DESIGN 4 row 8
        # element KINDS: nested bundles only, nested in nested only, mixed sequences; many small ones, few big ones
        add(site, [80] * 700, 0.2, 'directed', kinds='b')
        add(site, [60] * 500, None, 'directed', kinds='n')
        add(site, [600] * 110, 0.0, 'directed', kinds='mbBn')
        add(site, [30000, 30000, 30001], 0.5, 'directed', kinds='bnm')
        add(site, [0] * 6, None, 'directed', kinds='bBn')
        # non-ASCII text in the element addresses (and in their completion messages): sized exactly or refused
        add(site, [600] * 110, 0.2, 'directed', nonascii=True)
        add(site, [80] * 700, None, 'directed', kinds='mb', nonascii=True)
        add(site, [590] * 110, 0.0, 'directed', completion=True, kinds='mbBn', nonascii=True)
        for n in range(630, 646, 3):
            add(site, [n] * 99, None, 'sweep', nonascii=True)
        for b in range(65340, 65400, 4):
            add(site, [b, 0, 0, 0], None, 'sweep', nonascii=True)
        for n in range(600, 616, 2):
            add(site, [n] * 99, None, 'sweep', kinds='b')
            add(site, [n] * 99, 0.2, 'sweep', kinds='Bmn', completion=True)
        for b in range(65280, 65400, 4):       # whole-bundle sizes around both "needs splitting" decisions, per kind
            add(site, [b, 0, 0, 0], None, 'sweep', kinds='bmmm')
            add(site, [0, b + 1, 0], 0.2, 'sweep', kinds='mnb')
        add(site, [590] * 110, 0.2, 'directed', completion=True)  # elements with completion messages
        for n in range(620, 628):
            add(site, [n] * 99, None, 'sweep', completion=True)
        add(site, [80] * 400, None, 'directed')                   # many small elements
        add(site, [40000] + [80] * 300, 0.0, 'directed')
        add(site, [0] * 5, None, 'directed')                      # not oversized: one bundle
        add(site, [30000, 30000, 30001], 0.5, 'directed')
        add(site, [65000, 100, 100], None, 'directed')            # first element alone exceeds the clump size
        for n in range(630, 646):
            add(site, [n] * 99, None, 'sweep')                    # totals straddling the limit, all blob residues
        for n in range(65380, 65470, 7):
            add(site, [n, 0, 0, 0, 0, 0, 0], None, 'sweep')
        # whole-bundle sizes 65472..65520 in steps of 4 (and blob residues): every value around both decisions
        # "does it need splitting" (limit, and limit - 36 for sync where a /sync element is appended)
        for b in list(range(65352, 65400, 4)) + [65361, 65378, 65387]:
            add(site, [b, 0, 0, 0], None, 'sweep')
            add(site, [0, 0, b, 0], 0.2, 'sweep')
    for _ in range(nrand):
        site = rnd.choice(['clumped', 'sync'])
        k = rnd.random()
        if k < 0.3:
            blobs = [rnd.randint(1, 2000) for _ in range(rnd.randint(40, 140))]
        elif k < 0.6:
            blobs = [rnd.choice([0, 1, 5, 100, 1000, 6500, 30000, 32700]) for _ in range(rnd.randint(2, 12))]
        elif k < 0.8:
            # fill up to just around a threshold with one element, then small ones
            blobs = [rnd.randint(65300, 65470)] + [rnd.choice([0, 0, 1, 4, 7]) for _ in range(rnd.randint(0, 12))]
            rnd.shuffle(blobs)
        else:
            n = rnd.randint(50, 300)
            per = (LIMIT + rnd.randint(-400, 400)) // n - 24
            blobs = [max(0, per + rnd.randint(-3, 3)) for _ in range(n)]
        kinds = rnd.choice(['m', 'm', 'b', 'n', 'mb', 'mbBn', 'Bm', ''.join(rnd.choice('mbBn') for _ in range(7))])
        add(site, blobs, rnd.choice([None, 0.0, 0.2]), 'random', completion=rnd.random() < 0.3, kinds=kinds,
            nonascii=rnd.random() < 0.25)
    NONASCII[0] = False
    return cs


def Fn(v):
    return {'t': 'fn', 'ret': v}


def dsend_cases(thorough=False):
    """SynthDef sending: every documented form of the completion message (None, message, bundle, a function of the
    server returning each) through _do_send and its public callers send / add / store, with definition sizes
    sweeping across the point where the /d_recv message crosses 65504 bytes (so the /d_recv vs /d_load choice flips)"""
    direct = [g.K('N'), g.M('/s_new', [g.S('x'), g.I(1001)]), g.M('/s_new', [g.S('ñññññññ'), g.I(1001)]),
              g.M('/s_new', [g.S('default'), g.I(-1), g.B(b'12345'), g.M('/n_set', [g.I(1000), g.S('freq'), g.F(440.0)])]),
              g.M('/b_allocRead', [g.I(0), g.S('ü' * 200), g.M('/b_query', [g.I(0)])]),
              g.Bn(g.Lat(0.5), [g.M('/s_new', [g.S('x')])]),
              g.M('/ñu', [g.I(1)]), g.M('/s_new', [g.S('x'), g.M('/señal/ñ', [g.I(2)])])]      # non-ASCII addresses: sized or refused
    forms = direct + [Fn(v) for v in direct] + [Fn(Fn(g.K('N')))]
    out = []
    for cm in forms:
        x = 4 if strip_fn(cm)['t'] == 'N' else g.arg_len(cm)
        star = LIMIT - 16 - x          # the largest (padded) definition that still fits
        sweep = range(star - 9, star + 7) if thorough else range(star - 6, star + 5, 1)
        for site in ('do_send', 'send', 'add', 'store'):
            if site != 'send' and not thorough and cm['t'] != 'fn' and cm is not direct[1]:
                continue        # quick: every form through send, function forms and one list form through all sites
            for n in sweep:
                out.append(dict(kind='dsend', site=site, n=n, cm=cm, src='sweep'))
    for n in (100, 4000, 65000, 70000):
        out.append(dict(kind='dsend', site='send', n=n, cm=g.K('N'), src='sweep'))
    return out


# ------------------------------------------------------------------ running
def run_cases(ctx, cases):
    for i, c in enumerate(cases):
        c['id'] = i
    n = len(cases)
    # interleave so that every process gets a mix of cheap and expensive cases
    inputs = [dict(cases=[{k: w for k, w in c.items() if k != 'src'} for c in cases[j::16]]) for j in range(16)]
    inputs = [i for i in inputs if i['cases']]
    outs = ctx.run_drivers(DRIVER, inputs, mode='rt')
    traces = [t for o in outs for t in o['traces']]
    if len(traces) != n:
        raise MachineryError('driver returned %d traces for %d cases' % (len(traces), n))
    traces.sort(key=lambda t: t['id'])
    return traces


def case_features(c):
    if c['kind'] in ('enc', 'size'):
        return g.features(c['v'])
    if c['kind'] == 'clump':
        f = set()
        for e in c['els']:
            g.features(e, f)
        return f
    return g.features(g.M('/d_recv', [{'t': 'b', 'z': c['n']}] + ([] if c['cm']['t'] == 'N' else [strip_fn(c['cm'])])))


def strip_fn(v):
    while v['t'] == 'fn':
        v = v['ret']
    return v


def signature(c, why):
    f = case_features(c)
    if c['kind'] in ('enc', 'size'):
        if why == 'NotRefused':
            return 'enc:NotRefused:' + '+'.join(sorted(x for x in f if x in g.BAD) or ['other'])
        if why == 'PredBelow':
            return 'size:PredBelow:' + '+'.join(sorted(x for x in f if x in ('nonascii-string', 'nonascii-address', 'blob-len-not-multiple-of-4')) or ['other'])
        return '%s:%s' % (c['kind'], why)
    if c['kind'] == 'clump':
        return 'clump:%s:%s' % (c['site'], why)
    cm = c['cm']
    return 'dsend:%s:%s:%s' % (why, c.get('site', 'do_send'), 'function' if cm['t'] == 'fn' else 'list' if cm['t'] != 'N' else 'none')


WHAT = dict(
    NotRefused='a value that OSC 1.0 cannot represent was accepted and encoded (silently altered)',
    EncBytes='the encoder produced bytes that differ from the OSC 1.0 encoding of the value',
    RoundTrip='the bytes do not decode (OSC 1.0) to the coerced value',
    NotOsc='the encoder produced a datagram that is not OSC 1.0',
    Aligned='a component of the encoding is not 4-byte aligned',
    LibDecode='OscPacket decodes the datagram differently from OSC 1.0',
    LibDecodeRaised='OscPacket could not decode the datagram the library itself encoded',
    PredBelow='the predicted datagram size is below the real encoded size',
    EncLen='the datagram length differs from the OSC 1.0 encoded length',
    OnceInOrder='the datagrams do not carry every element exactly once and in order',
    WithinLimit='a datagram exceeds the 65504-byte UDP limit',
    Raised='sending a splittable bundle raised',
)


def judge(ctx, cases, traces):
    verdicts, drifts = oscv.validate(ctx, 'TraceOsc', 'TraceOsc.cfg', traces)
    byid = {t['id']: t for t in traces}
    for c in cases:
        t = byid[c['id']]
        v = verdicts[c['id']]
        accepted = t['out'].get('k', 'ok') == 'ok'
        f = case_features(c)
        if accepted and (len(f) >= 4 or c['kind'] in ('clump', 'dsend')):
            ctx.nontrivial(dict(kind=c['kind'], v=c.get('v'), els=c.get('els'), n=c.get('n'), site=c.get('site'), cm=c.get('cm')))
        if not accepted and c['kind'] in ('enc', 'size') and not (f & set(g.BAD)) and 'array-marker' not in f \
                and 'bundle-in-bundle' not in f and 'unsupported' not in f:
            ctx.note_drift('refused although representable: %s (%s)' % (json.dumps(c['v'])[:200], t['out'].get('exc')))
        if v is not None:
            why = v[1]
            obs = {k: w for k, w in t['out'].items() if k not in ('bytes', 'dec')}
            if 'bytes' in t['out']:
                obs['hex'] = bytes(t['out']['bytes']).hex()
            ctx.violation(signature(c, why), '%s [%s case: %s]' % (WHAT.get(why, why), c['kind'], describe(c, t)),
                          dict(kind='case', case={k: w for k, w in c.items() if k not in ('id',)}, why=why, observed=obs))
    for i, d in list(drifts.items())[:20]:
        ctx.note_drift('%s: %s' % (d, describe(cases[i], byid[i])))
    ctx.cov['drift_count'] = ctx.cov.get('drift_count', 0) + len(drifts)
    return verdicts


def describe(c, t):
    if c['kind'] in ('enc', 'size'):
        try:
            from harness import oscrt
            py = repr(oscrt.realise(c['v']))
        except Exception:
            py = json.dumps(c['v'])
        return '%s -> %s pred=%s' % (py[:160], {k: w for k, w in t['out'].items() if k in ('k', 'len', 'exc')} or '',
                                      t.get('pred', {}).get('n'))
    if c['kind'] == 'clump':
        def first(e):
            while e['t'] == 'B':
                e = e['el'][0]
            return e['args'][0]['z'] if e['args'] and 'z' in e['args'][0] else 0
        blobs = ['%s%d' % ({'m': '', 'B': 'bundle:'}[e['t']], first(e)) for e in c['els']]
        return '%s of %d elements (blob sizes %s...) -> datagram lengths %s' % (
            c['site'], len(blobs), blobs[:4], [d['len'] for d in t['out'].get('dgrams', [])][:8])
    cm = c['cm']
    form = ('function returning ' + cm['ret']['t']) if cm['t'] == 'fn' else cm['t']
    return 'SynthDef.%s of %d bytes, completion %s -> %s' % (c.get('site', '_do_send'), t['n'], form, t['out'])


def run(ctx):
    thorough = not ctx.quick
    sfx = '_thorough' if thorough else ''
    # 1. design: OSC 1.0 reference is self-consistent; L2 size formulas and clump loop satisfy L1
    r = ctx.model_check('OscModel', 'OscModel%s.cfg' % sfx, require_cover=('AddArg', 'AddElem', 'NestInMsg', 'NestInBundle'),
                        timeout=1500)
    ctx.expect_ok(r, 'OscModel (RoundTrip, Aligned, LenAgrees, PredNotBelow)')
    r = ctx.model_check('OscClump', 'OscClump%s.cfg' % sfx, require_cover=('FeedMsg', 'FeedBundle', 'FeedNested'), timeout=1500)
    ctx.expect_ok(r, 'OscClump (accumulator loop refines the splitter law)')
    r = ctx.model_check('OscDsend', 'OscDsend.cfg', require_cover=('PickRecv', 'PickLoad', 'PickRaise'), timeout=300)
    ctx.expect_ok(r, 'OscDsend (the /d_recv vs /d_load choice made on the resolved completion message is safe and flips)')

    # 2. cases
    rnd = random.Random(ctx.seed)
    cases = emitted_cases(ctx, 'OscModel_emit%s.cfg' % ('2' if thorough else ''))
    ctx.cov['spec_values_replayed'] = len(cases)
    cases += directed_enc_cases()
    cases += random_enc_cases(rnd, 12000 if thorough else 1200)
    cases += size_cases(rnd, 600 if thorough else 80)
    cl = clump_cases(rnd, 1200 if thorough else 60)
    cases += cl
    cases += dsend_cases(thorough)
    traces = run_cases(ctx, cases)
    ctx.cov['evaluations'] += len(cases)
    judge(ctx, cases, traces)
    for c in (cases[len(cases) // 3], cl[0], cases[-1]):
        ctx.sample(dict(case=describe(c, traces[c['id']])))
    kinds = {}
    for c in cases:
        kinds[c['kind'] + '/' + c['src']] = kinds.get(c['kind'] + '/' + c['src'], 0) + 1
    ctx.cov['cases_by_kind'] = kinds
    ctx.cov['refused'] = sum(1 for t in traces if t['out'].get('k') == 'raise')
    ctx.cov['rule'] = ('every value of the OscModel pool printed by TLC (messages with <= %d args from a 44-value pool, '
                       'bundles, extra nesting) + directed values per input class + seeded random messages/bundles '
                       '(<= 40 args, nesting <= 4, 35%% with unrepresentable atoms) + large values (lengths only) + bundles '
                       'through send_clumped_bundles/sync (elements of every kind: messages, nested bundles, nested-in-nested, mixed; directed, '
                       'sweeps over blob residues and thresholds, random) + '
                       'SynthDef._do_send/send/add/store with every completion form (None, list, bundle, function of the server) swept over the limit; non-trivial = accepted and combining >= 4 input classes, or '
                       'a clump/dsend case; distinct by content' % (2 if thorough else 1))
    ctx.cov['exhaustive'] = False
    ctx.assumptions += [
        'float64 -> float32 rounding is done by the projection with struct (the spec carries the 32 bits)',
        'datagrams larger than 2 KB are checked for length and element structure, not rebuilt byte by byte',
        'addresses start with "/" (the generator never produces others); send time is 0 and the clock offset is read from SystemClock',
        'a size prediction that raises (bundle-shaped completion message, empty list, non-ASCII address) is not a prediction: not judged',
        'elements that do not fit a datagram on their own are outside the splitter law (no split exists)',
    ]


def replay(ctx, rp):
    c = dict(rp['replay']['case'])
    c.setdefault('src', 'replay')
    cases = [c]
    traces = run_cases(ctx, cases)
    v = judge(ctx, cases, traces)
    ctx.cov['evaluations'] = 1
    ctx.sample(dict(case=describe(c, traces[0]), verdict=v[0]))


MANIFEST = dict(
    category='model_checking',
    text=('OSC 1.0 is transcribed as an executable TLA+ reference over byte sequences (encoder, total decoder, documented '
          'coercions, refusal predicate, arithmetic length). TLC checks exhaustively over a value pool (ints at the int32 '
          'boundaries, strings/blobs of length 0-5 incl. multi-byte UTF-8 and NUL, coercions, array markers, nested '
          'messages/bundles to depth 2-3, all time kinds) that Dec(Enc(v)) = Coerce(v), that every component is 4-byte '
          'aligned, that the library\'s size formulas never predict below the true length, and that a line-by-line model '
          'of the clumping loop at both call sites (real constants 8192 / 65504-36) refines the splitter law. The real '
          'code is bound by trace validation: TLC compares byte for byte what _build_msg/_build_bundle emit and what '
          'OscPacket decodes with the reference for every pool value it printed and for seeded random values, compares '
          'predicted with real sizes, and decides from the datagrams captured at the interface whether '
          'send_clumped_bundles / sync / SynthDef.send/add/store/_do_send (completion message as None, list or function of the '
          'server; the prediction must be made on the resolved list) stay within 65504 bytes with every element once and in order.'),
    note=('Not decided: float64->float32 rounding (done by struct in the projection); byte-exact content of datagrams '
          '> 2 KB (lengths and element order only); addresses not starting with "/"; doubles/MIDI/RGBA tags (never '
          'produced by sc3); predictions that raise instead of returning a number. Trusted: TLC, the projection '
          '(harness/oscrt.py realise/project), the 20-line independent bundle reader used to list element ids.'),
    technique='TLA+ executable OSC 1.0 reference + L2 size/clump models checked by TLC; batch trace validation of real encodings, predictions and captured datagrams',
    design_ref='DESIGN.md section 3 / C06',
    engine='Osc',
)
