"""C09 - time-ordered collections are stable priority queues under any history.

Decided by: TaskQueue.tla (L1) + TaskQueueImpl.tla (L2, refinement by step invariant) checked by
TLC; binding C->S: every history of length <= D over the full method alphabet and long random
histories run on the real TaskQueue, validated by TraceTaskQueue.tla; binding S->C: simulated
behaviours of the implementation-shaped model replayed on the real object (state compared)."""
import itertools
import random

from harness.common import MachineryError

DRIVER = 'drivers/c09_taskq.py'
INF = 10 ** 9
TASKS = ['a', 'b', 'c']


def alphabet(prios):
    al = [dict(n='add', p=p, t=t) for p in prios for t in TASKS]
    al += [dict(n='remove', p=0, t=t) for t in TASKS]
    al += [dict(n=n, p=0, t='') for n in ('pop', 'peeks', 'peekl', 'empty', 'clear', 'iter')]
    return al


def nontrivial(h):
    """history has a state-changing call on a queue that already holds the task or a tie on prio,
    and at least one observation after it"""
    present = {}
    hot = False
    for e in h:
        if e['n'] == 'add':
            if e['t'] in present or e['p'] in present.values():
                hot = True
            present[e['t']] = e['p']
        elif e['n'] == 'remove':
            if e['t'] in present:
                hot = True
                del present[e['t']]
        elif e['n'] == 'clear':
            present = {}
        elif e['n'] == 'pop':
            if present:
                m = min(present.values())
                # which one is popped is the spec's business; just forget tracking precisely
                for t, p in list(present.items()):
                    if p == m:
                        del present[t]
                        break
            if hot:
                return True
        elif hot:
            return True
    return False


def random_history(rnd, n):
    prios = [0, 4, 8, 8, 12, 20, 1, INF, 8 * rnd.randint(0, 50)]
    tasks = ['t%d' % i for i in range(rnd.randint(2, 9))]
    h = []
    for _ in range(n):
        x = rnd.random()
        if x < 0.45:
            h.append(dict(n='add', p=rnd.choice(prios), t=rnd.choice(tasks)))
        elif x < 0.6:
            h.append(dict(n='remove', p=0, t=rnd.choice(tasks)))
        elif x < 0.75:
            h.append(dict(n='pop', p=0, t=''))
        elif x < 0.98:
            h.append(dict(n=rnd.choice(['peeks', 'peekl', 'empty', 'iter']), p=0, t=''))
        else:
            h.append(dict(n='clear', p=0, t=''))
    return h


def run(ctx):
    thorough = not ctx.quick
    # 1. design: L1 properties, and L2 (the code's algorithm) refines L1
    sfx = '_thorough' if thorough else ''
    acts = ('Add', 'Remove', 'Pop', 'PeekS', 'PeekL', 'Empty', 'Clear', 'Iter')
    r = ctx.model_check('TaskQueue', 'TaskQueue%s.cfg' % sfx, require_cover=acts, timeout=1500)
    ctx.expect_ok(r, 'TaskQueue L1')
    r = ctx.model_check('TaskQueueImpl', 'TaskQueueImpl%s.cfg' % sfx, require_cover=acts, timeout=1500)
    ctx.expect_ok(r, 'TaskQueueImpl refines TaskQueue')

    # 2. C->S: exhaustive short histories + random long ones on the real class
    depth = 5 if thorough else 4
    al = alphabet([0, 8])
    hs = [list(h) for h in itertools.product(al, repeat=depth)]
    rnd = random.Random(ctx.seed)
    nrand = 6000 if thorough else 400
    hs += [random_history(rnd, rnd.randint(30, 200)) for _ in range(nrand)]
    traces = run_histories(ctx, hs)
    verdicts = ctx.validate('TraceTaskQueue', 'TraceTaskQueue.cfg', traces)
    ctx.cov['evaluations'] += len(hs)
    ctx.cov['exhaustive_depth'] = depth
    for t in traces:
        h = hs[t['id']]
        if nontrivial(h):
            ctx.nontrivial(h)
        v = verdicts[t['id']]
        if v is not None:
            at, why = v
            ev = t['ev'][at - 1]
            ctx.violation('taskqueue:%s:%s' % (ev['n'], why),
                          'TaskQueue.%s disagrees with the stable-priority-queue spec (%s) at step %d of history'
                          % (ev['n'], why, at), dict(kind='history', history=h, rejected_at=at, why=why,
                                                    observed=t['ev'][:at]))
    ctx.sample(dict(history=hs[-1][:12], observed=[e['r'] for e in traces[-1]['ev'][:12]]))

    # 3. S->C: behaviours of the implementation-shaped model replayed on the real object
    from harness import tlc
    nsim = 2000 if thorough else 300
    behs, r = tlc.simulate_behaviours('TaskQueueImpl', 'TaskQueueImpl_sim.cfg', ctx.work, num=nsim, depth=25,
                                      seed=ctx.seed + 1)
    ctx.cov['transitions'] += r.generated
    hs2, exp = [], []
    for b in behs:
        h, e = [], []
        for act, st in b[1:]:
            op = st['op']
            h.append(dict(n=op['n'], p=op['p'] * 8, t=op['t']))
            rv = st['ret']
            e.append(dict(k=rv['k'], v=[[p * 8, t] for p, t in rv['v']]))
        hs2.append(h)
        exp.append(e)
    tr2 = run_histories(ctx, hs2)
    ctx.cov['evaluations'] += len(hs2)
    ctx.cov['spec_behaviours_replayed'] = len(hs2)
    for t in tr2:
        h = hs2[t['id']]
        if nontrivial(h):
            ctx.nontrivial(h)
        for i, (ev, ex) in enumerate(zip(t['ev'], exp[t['id']])):
            if ev['r'] != ex:
                ctx.violation('taskqueue:%s:replay' % ev['n'],
                              'replayed model behaviour: real TaskQueue.%s returned %s, spec %s'
                              % (ev['n'], ev['r'], ex), dict(kind='history', history=h, rejected_at=i + 1))
                break
    consumers(ctx, thorough)
    par_streams(ctx, thorough)
    rt_queues(ctx, thorough)
    ctx.cov['rule'] = ('all histories of length %d over {add x2 prios x3 tasks, remove x3, pop, peek smallest/largest, '
                       'empty, clear, iter} plus %d seeded random histories (length 30-200, float prios with ties and '
                       'inf, re-adds) plus %d TLC-simulated behaviours of the L2 model; non-trivial = contains a re-add, '
                       'a removal of a present task or a priority tie followed by an observation; distinct by content'
                       % (depth, nrand, len(hs2)))
    ctx.cov['exhaustive'] = True
    ctx.assumptions += ['CPython heapq extracts the least entry (heap layout abstracted)',
                        'task keys: strings in even-numbered histories, equal-but-not-identical objects (fresh instance per call) in odd ones',
                        'consumers: the NRT ClockScheduler and the OSC score are observed here through tie programs, Ppar through the order in which it emits its children (decimal durations, times as ranks of IEEE sums); the queues of the RT clocks through scheduling programs under the controlled scheduler with preemption points inside the TaskQueue methods (queue clauses of ClockL1; the full clock contract is C08); Ppar deltas and bundles in C14']


def consumers(ctx, thorough):
    """the library's own time-ordered collections, observed through what they order: the NRT ClockScheduler
    (routines tied at one beat, re-scheduled while pending, re-timed by a tempo change) and the OSC score (bundles
    stamped with equal times) - programs run under NrtMain and followed by TLC through the LogicalTime machine"""
    import random
    from props import _time as T
    rnd = random.Random(ctx.seed + 99)
    n = 1500 if thorough else 200
    progs = [T.gen_tie_program(rnd, i) for i in range(n)]
    tr = T.run_mode(ctx, progs, 'nrt')
    for t in tr:
        t['id'] += 5_000_000
    v = T.validate(ctx, tr)
    ctx.cov['evaluations'] += len(tr)
    ctx.cov['consumer_programs'] = len(tr)
    for t in tr:
        ctx.nontrivial([t['prog']['routines'], t['prog']['main']])
        r = v[t['id']]
        if r is not None:
            at, why = r
            ctx.violation('consumer:nrt:%s' % why,
                          'time-ordered consumer (NRT clock scheduler / OSC score) out of (time, scheduling) order: %s at event %d' % (why, at),
                          dict(kind='tie-program', program=t['prog'], rejected_at=at, why=why, events=t['ev'][:at + 1], score=t.get('score')))


DURS = [0.1, 0.2, 0.3, 0.4, 0.7, 0.25, 0.5, 0.6, 0.15, 1.1, 1 / 3]


def par_cases(rnd, n):
    cases = []
    for i in range(n):
        x = rnd.random()
        if x < 0.25:        # two or three voices cycling through short decimal patterns: they keep meeting again
            k = rnd.randint(3, 10)
            kids = [[rnd.choice(DURS) for _ in range(rnd.randint(1, 3))] * k for _ in range(rnd.randint(2, 3))]
        elif x < 0.4:       # the same total per cycle, split differently (equal decimal times, unequal float sums)
            k = rnd.randint(2, 8)
            kids = [[0.1, 0.7] * k, [0.2, 0.7] * k] + ([[0.3, 0.5] * k] if rnd.random() < 0.5 else [])
            rnd.shuffle(kids)
        else:
            kids = [[rnd.choice(DURS) for _ in range(rnd.randint(1, 14))] for _ in range(rnd.randint(2, 4))]
        cases.append(dict(id=9_000_000 + i, children=kids))
    return cases


def par_streams(ctx, thorough, only=None):
    """consumer: parallel pattern streams.  Ppar over children with decimal (non-dyadic) durations; TLC folds the
    emitted child order through the stable merge of the children's own time lines (TraceParMerge.tla)."""
    import random
    rnd = random.Random(ctx.seed + 77)
    cases = only if only is not None else par_cases(rnd, 3000 if thorough else 400)
    per = max(1, (len(cases) + 15) // 16)
    outs = ctx.run_drivers('drivers/c09_par.py', [dict(cases=cases[i:i + per]) for i in range(0, len(cases), per)], mode='nrt')
    traces = [t for o in outs for t in o['traces']]
    if len(traces) != len(cases):
        raise MachineryError('par driver returned %d traces for %d cases' % (len(traces), len(cases)))
    v = ctx.validate('TraceParMerge', 'TraceParMerge.cfg', traces)
    ctx.cov['evaluations'] += len(traces)
    ctx.cov['par_cases'] = len(traces)
    cmap = {c['id']: c for c in cases}
    ties = 0
    for t in traces:
        alltimes = [r for line in t['ranks'] for r in line[1:-1]]
        if len(set(alltimes)) < len(alltimes):       # two children meet at exactly the same (float) time after the start
            ties += 1
            ctx.nontrivial([cmap[t['id']]['children']])
        r = v[t['id']]
        if not t['deltas_nonneg']:
            r = r or (0, 'negative-delta')
        if r is not None:
            at, why = r
            ctx.violation('consumer:par:%s' % why,
                          'Ppar does not emit the stable time-ordered merge of its children (%s) at emission %d' % (why, at),
                          dict(kind='par-case', case=cmap[t['id']], rejected_at=at, why=why, emitted=t['em'], ranks=t['ranks']))
    ctx.cov['par_cases_with_equal_times'] = ties
    if only is None and ties < len(traces) // 20:
        raise MachineryError('vacuity: only %d of %d Ppar cases have two children meeting at an equal time' % (ties, len(traces)))


QUEUE_CLAUSES = ('order', 'wake-not-pending', 'missed', 'clock-died', 'early')


def rt_queues(ctx, thorough, only=None):
    """consumer: the queues of the real-time clocks.  Programs of scheduling calls from several threads run on the real
    SystemClock / AppClock / TempoClock under the controlled scheduler, with preemption points INSIDE the TaskQueue
    methods (after every heap operation), and are judged by the ClockL1 monitor: what comes out of a clock's queue is
    the stable time order of what went in, each scheduling once (the clauses that are about the queue)."""
    import random
    from props import C08
    rnd = random.Random(ctx.seed + 909)
    if only is not None:
        progs = only
    else:
        progs = []
        for i in range(600 if thorough else 70):
            p = C08.gen_program(rnd, 7_000_000 + i)
            p['qpoints'] = True
            p['strategy'] = dict(kind=rnd.choice(['random', 'random', 'pct']), seed=rnd.randrange(1 << 30), p_stay=rnd.choice([0.0, 0.5]))
            progs.append(p)
    traces = [t for t in C08.run_batches(ctx, progs) if not t.get('nondyadic')]
    for t in traces:
        t.pop('branch', None)
    v = ctx.validate('TraceClock', 'TraceClock.cfg', traces, timeout=1500)
    ctx.cov['evaluations'] += len(traces)
    ctx.cov['rt_queue_executions'] = len(traces)
    pm = {p['id']: p for p in progs}
    for t in traces:
        if C08.nontrivial(t):
            ctx.nontrivial([t['ev']])
        r = v[t['id']]
        if r is None:
            continue
        at, why = r
        if why in QUEUE_CLAUSES:
            ctx.violation('consumer:rt:%s' % why,
                          'a real-time clock queue does not deliver the stable time order of its schedulings (%s) at event %d: %s'
                          % (why, at, C08.brief(t['ev'][at - 1])),
                          dict(kind='rt-queue', program=pm[t['id']], rejected_at=at, why=why,
                               events=[C08.brief(e) for e in t['ev'][max(0, at - 25):at]]))
        else:
            ctx.cov.setdefault('rt_queue_rejections_belonging_to_C08', {}).setdefault(why, 0)
            ctx.cov['rt_queue_rejections_belonging_to_C08'][why] += 1


def run_histories(ctx, hs, base=0):
    n = len(hs)
    per = max(1, (n + 15) // 16)
    inputs = [dict(ids=list(range(i, min(n, i + per))), histories=hs[i:i + per], eqkeys=True) for i in range(0, n, per)]
    outs = ctx.run_drivers(DRIVER, inputs)
    traces = [t for o in outs for t in o['traces']]
    if len(traces) != n:
        raise MachineryError('driver returned %d traces for %d histories' % (len(traces), n))
    return traces


def replay(ctx, rp):
    if rp['replay'].get('kind') == 'rt-queue':
        ctx.cov['evaluations'] = 0
        return rt_queues(ctx, False, only=[rp['replay']['program']])
    if rp['replay'].get('kind') == 'par-case':
        ctx.cov['evaluations'] = 0
        return par_streams(ctx, False, only=[rp['replay']['case']])
    if rp['replay'].get('kind') == 'tie-program':
        from props import _time as T
        tr = T.run_mode(ctx, [dict(rp['replay']['program'], id=0)], 'nrt', nproc=1)
        v = T.validate(ctx, tr)
        ctx.cov['evaluations'] = 1
        ctx.sample(dict(verdict=v[0]))
        if v[0] is not None:
            ctx.violation('consumer:nrt:%s' % v[0][1], 'replayed: %s at %d' % (v[0][1], v[0][0]), rp['replay'])
        return
    h = rp['replay']['history']
    traces = run_histories(ctx, [h])
    verdicts = ctx.validate('TraceTaskQueue', 'TraceTaskQueue.cfg', traces)
    v = verdicts[0]
    ctx.cov['evaluations'] = 1
    ctx.sample(dict(history=h, verdict=v))
    if v is not None:
        ev = traces[0]['ev'][v[0] - 1]
        ctx.violation('taskqueue:%s:%s' % (ev['n'], v[1]), 'replayed: %s at step %d' % (v[1], v[0]),
                      dict(kind='history', history=h, rejected_at=v[0], why=v[1]))


MANIFEST = dict(
    category='model_checking',
    text=('TLC checks exhaustively (3 tasks, 2-3 priorities, bounded stamps) that the stable-priority-queue spec '
          'satisfies the stated laws and that a line-by-line model of the lazy-deletion heap refines it; the real '
          'class is bound to the spec by validating every history of length <=4 (thorough: 5) over the complete method '
          'alphabet plus long random histories as traces (string keys and equal-but-not-identical keys), by replaying simulated model behaviours, and through its consumers: tie programs on the NRT clock scheduler and equal-time bundles in the OSC score, followed by TLC through the LogicalTime machine, and Ppar over children with decimal durations, whose emission order TLC folds through the stable merge of the children\'s own time lines (TraceParMerge.tla), and the queues of the real-time clocks (scheduling programs from several threads under the controlled scheduler with preemption points inside the TaskQueue methods, judged by the queue clauses of the ClockL1 monitor).'),
    note='Trusted: TLC, CPython heapq, the 60-line driver that records return values. Histories are finite and tasks are strings.',
    technique='TLA+ L1/L2 refinement checked by TLC + batch trace validation of exhaustive/random histories on the real TaskQueue and of its consumers (NRT scheduler, OSC score)',
    design_ref='DESIGN.md section 3 / C09',
    engine='TaskQueue',
)
