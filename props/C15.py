"""C15 - operators lift uniformly over functions, streams, patterns, lists, operands; kernel laws.

Decided by: Ops.tla.  (i) the lifting structure per operand kind (scalar / wrap-and-zip / pointwise /
shortest stream / same stream) with an uninterpreted kernel: TLC checks the structure operators on sample
trees, then decides for every recorded composition - every operator name of AbstractObject and
sc3.base.builtins, every form (method, Python operator, reflected, module function, list algebra
functions), every operand-kind pair and several shapes - that the evaluation of the composed object is
the table of kernel values (real kernel on plain numbers) arranged as the law prescribes, exceptions
included.  (ii) range laws (wrap fold clip round roundup trunc mod) on the 1/8 lattice and inverse pairs
at their exact points, decided with integer arithmetic."""
import itertools
import random
import time

from harness.common import MachineryError

DRIVER = 'drivers/c15_ops.py'


def I(n):
    return ['i', n]


def F(n, d):
    return ['f', n, d]


INTS = [I(0), I(1), I(2), I(3), I(-1), I(-2), I(5), I(7)]
FLOATS = [F(1, 2), F(-3, 2), F(9, 4), F(1, 4), F(-1, 2), F(3, 1), F(0, 1), F(5, 2)]
POOL = INTS + FLOATS


class Gen:
    def __init__(self, rnd):
        self.rnd = rnd
        self.cases = []

    def vals(self, n, ints=None):
        r = self.rnd
        if ints is None:
            ints = r.random() < 0.4
        pool = INTS if ints else POOL
        return [r.choice(pool) for _ in range(n)]

    def operand(self, kind, variant=0, n=None):
        r = self.rnd
        if kind in ('num', 'opd', 'rest'):
            return dict(v=self.vals(1)[0])
        if kind == 'fn':
            return dict(vals=self.vals(3), nargs=[1, 2, 1][variant % 3], src=['', '', 'composed'][variant % 3])
        if kind == 'strm':
            return dict(vals=self.vals(n or r.randint(1, 4)), src=['pseq', 'routine', 'composed'][variant % 3])
        if kind == 'pat':
            return dict(vals=self.vals(n or r.randint(1, 4)), src=['pseq', 'gen', 'composed'][variant % 3])
        if kind == 'list':
            return dict(tree=self.tree(variant))
        raise AssertionError(kind)

    def tree(self, variant, root='C'):
        v = self.vals
        shapes = [
            lambda: [root, v(3)],
            lambda: [root, v(2)],
            lambda: [root, [v(1)[0], ['L', v(2)], ['T', v(3)]]],
            lambda: [root, [['L', v(2)], v(1)[0]]],
            lambda: [root, [['T', [v(1)[0], ['L', v(2)]]], v(1)[0], v(1)[0]]],
            lambda: [root, v(1)],
            lambda: [root, v(4)],
            lambda: [root, [['L', v(1)], ['L', v(3)]]],
        ]
        return shapes[variant % len(shapes)]()

    def lift(self, op, form, ar, ka, A, kb='none', B=None, extra=(), pos=0, how='stream'):
        self.cases.append(dict(ty='lift', op=op, form=form, ar=ar, ka=ka, kb=kb, A=A, B=B or {},
                               extra=list(extra), pos=pos, how=how))


UN_KINDS = [('fn', 0), ('fn', 2), ('strm', 0), ('strm', 1), ('pat', 0), ('pat', 1), ('list', 0), ('list', 2),
            ('list', 4), ('opd', 0), ('rest', 0)]

# operand-kind pairs for binary operators: (ka, variantA, kb, variantB)
BIN_PAIRS = [
    ('fn', 0, 'num', 0), ('fn', 0, 'fn', 1), ('fn', 2, 'fn', 0), ('fn', 1, 'fn', 2),
    ('strm', 0, 'num', 0), ('strm', 0, 'strm', 1), ('strm', 1, 'pat', 0), ('strm', 2, 'strm', 0), ('strm', 0, 'same', 0),
    ('strm', 1, 'same', 0),
    ('pat', 0, 'num', 0), ('pat', 0, 'pat', 1), ('pat', 2, 'pat', 0), ('pat', 0, 'strm', 0), ('pat', 1, 'pat', 1),
    ('list', 0, 'num', 0), ('list', 0, 'list', 1), ('list', 1, 'list', 0), ('list', 2, 'list', 3),
    ('list', 4, 'list', 2), ('list', 6, 'list', 7), ('list', 5, 'list', 0), ('list', 2, 'num', 0),
    ('opd', 0, 'num', 0), ('opd', 0, 'opd', 0), ('rest', 0, 'num', 0), ('rest', 0, 'rest', 0), ('opd', 0, 'rest', 0),
    ('rest', 0, 'opd', 0),
]
# a plain number on the left (reflected forms)
REFL_KINDS = [('fn', 0), ('fn', 2), ('strm', 0), ('strm', 1), ('pat', 0), ('pat', 2), ('list', 0), ('list', 2),
              ('list', 4), ('opd', 0), ('rest', 0)]

NARY_ARGS = dict(
    clip=[[I(0), I(2)], [F(-1, 1), F(3, 2)]], wrap=[[I(0), I(2)], [F(-1, 1), F(3, 2)]],
    fold=[[I(0), I(2)], [F(-1, 1), F(3, 2)]], blend=[[I(2), F(1, 2)], [F(4, 1), F(1, 4)]],
    linlin=[[I(0), I(4), I(10), I(20)], [F(-1, 1), F(3, 1), F(0, 1), F(1, 1)]],
    linexp=[[I(0), I(4), I(10), I(20)], [F(-1, 1), F(3, 1), F(1, 2), F(8, 1)]],
    explin=[[I(1), I(4), I(10), I(20)], [F(1, 2), F(8, 1), F(0, 1), F(1, 1)]],
    expexp=[[I(1), I(4), I(10), I(20)], [F(1, 2), F(8, 1), F(1, 4), F(2, 1)]],
    lincurve=[[I(0), I(4), I(10), I(20), I(-4)], [F(-1, 1), F(3, 1), F(0, 1), F(1, 1), F(2, 1)]],
    curvelin=[[I(0), I(4), I(10), I(20), I(-4)], [F(-1, 1), F(3, 1), F(0, 1), F(1, 1), F(2, 1)]],
    bilin=[[I(1), I(0), I(4), I(15), I(10), I(20)]], biexp=[[I(2), I(1), I(4), I(15), I(10), I(20)]],
    moddif=[[I(1), F(4, 1)], [F(1, 2), F(2, 1)]],
    lg3interp=[[I(1), I(2), I(3), I(4)], [F(1, 2), F(1, 1), F(-1, 1), F(2, 1)]],
    snap=[[], [F(1, 1), F(1, 2), F(1, 2)]], softround=[[], [F(1, 1), F(1, 8), F(1, 2)]],
    lcurve=[[], [F(2, 1), F(1, 1), F(1, 2), F(2, 1)]], gauss=[[F(1, 2)]], gauss_curve=[[], [F(2, 1), F(1, 1), F(1, 2)]],
    wrap_range=[], )


def gen_lift(cat, rnd, thorough):
    g = Gen(rnd)
    methods = {m['name']: m for m in cat['methods']}
    builtins = {b['name']: b for b in cat['builtins']}
    DUN_UN = ['__neg__', '__pos__', '__abs__', '__invert__', '__round__', '__trunc__', '__ceil__', '__floor__']
    DUN_BIN = ['__add__', '__sub__', '__mul__', '__truediv__', '__floordiv__', '__mod__', '__pow__', '__lshift__',
               '__rshift__', '__and__', '__or__', '__xor__', '__lt__', '__le__', '__eq__', '__ne__', '__gt__', '__ge__']
    REFL = ['__radd__', '__rsub__', '__rmul__', '__rtruediv__', '__rfloordiv__', '__rmod__', '__rpow__', '__rlshift__',
            '__rrshift__', '__rand__', '__ror__', '__rxor__']
    names = sorted(set(methods) | set(builtins))
    reps = 10 if thorough else 1
    for name in names:
        m = methods.get(name)
        b = builtins.get(name)
        if name in REFL:
            for _ in range(reps):
                for kb, vb in REFL_KINDS:
                    g.lift(name, 'rdunder', 2, 'num', g.operand('num'), kb, g.operand(kb, vb))
            continue
        # ---- unary
        if (m and m['nparams'] == 0) or (b and b['kind'] == 'unop' and not m):
            forms = []
            if m:
                forms.append('dunder' if name in DUN_UN else 'method')
            if b:
                forms.append('builtin')
            for _ in range(reps):
                for form in forms:
                    for ka, va in UN_KINDS:
                        g.lift(name, form, 1, ka, g.operand(ka, va))
                    g.lift(name, form, 1, 'pat', g.operand('pat', 2), how='embed')
                if b or name in ('neg', 'abs', 'bitnot', 'not_'):
                    for va in (0, 2, 4):
                        g.lift(name, 'listfn', 1, 'list', dict(tree=g.tree(va, rnd.choice('LT'))))
            continue
        # ---- binary
        if (m and m['nparams'] == 1) or (b and b['kind'] == 'binop' and not m):
            forms = []
            if m:
                forms.append('dunder' if name in DUN_BIN else 'method')
            if b:
                forms.append('builtin')
            for _ in range(reps):
                for form in forms:
                    for ka, va, kb, vb in BIN_PAIRS:
                        if kb == 'same':
                            A = g.operand(ka, va, n=rnd.choice([3, 4, 5]))
                            g.lift(name, form, 2, ka, A, 'same', A)
                        else:
                            g.lift(name, form, 2, ka, g.operand(ka, va), kb, g.operand(kb, vb))
                    g.lift(name, form, 2, 'pat', g.operand('pat', 0), 'pat', g.operand('pat', 2), how='embed')
                    if m and m['required'] == 0 and form == 'method':
                        for ka, va in UN_KINDS:
                            g.lift(name, 'method-default', 2, ka, g.operand(ka, va))
                if b:       # module function with a plain number on the left
                    for kb, vb in REFL_KINDS:
                        g.lift(name, 'builtin', 2, 'num', g.operand('num'), kb, g.operand(kb, vb))
                if b or name in PYK:
                    for va, vb in ((0, 1), (2, 3), (4, 2), (1, 6)):
                        g.lift(name, 'listfn', 2, 'list', dict(tree=g.tree(va, rnd.choice('LT'))), 'list',
                               dict(tree=g.tree(vb, rnd.choice('LT'))))
                    g.lift(name, 'listfn', 2, 'list', dict(tree=g.tree(2, 'L')), 'num', g.operand('num'))
                    g.lift(name, 'listfn', 2, 'num', g.operand('num'), 'list', dict(tree=g.tree(4, 'T')))
            continue
        # ---- n-ary
        argsets = NARY_ARGS.get(name)
        if argsets is None:
            g.skipped = getattr(g, 'skipped', []) + [name]
            continue
        forms = (['method'] if m else []) + (['builtin'] if b else [])
        for _ in range(reps):
            for form in forms:
                for extra in argsets:
                    if form == 'method' and m and len(extra) < m['required']:
                        continue
                    for ka, va in UN_KINDS:
                        g.lift(name, form, 3, ka, g.operand(ka, va), extra=extra)
                    g.lift(name, form, 3, 'pat', g.operand('pat', 0), extra=extra, how='embed')
                    # one of the further arguments is itself an operand of the same kind
                    if extra:
                        for pos in sorted({0, len(extra) - 1}):
                            ex2 = extra[:pos] + extra[pos + 1:]
                            for ka, va, vb in (('fn', 0, 1), ('fn', 1, 2), ('strm', 0, 1), ('pat', 0, 1), ('pat', 2, 0)):
                                B = g.operand(ka, vb)
                                if ka != 'fn':      # keep the argument near the replaced number
                                    B['vals'] = [extra[pos]] * len(B['vals'])
                                else:
                                    B['vals'] = [extra[pos]] * 3
                                g.lift(name, form, 3, ka, g.operand(ka, va), ka, B, extra=ex2, pos=pos)
            if b:
                for extra in argsets:
                    for va in (0, 2, 4):
                        g.lift(name, 'listfn', 3, 'list', dict(tree=g.tree(va, rnd.choice('LT'))), extra=extra)
    return g.cases, getattr(g, 'skipped', [])


PYK = {'pow', 'bitand', 'bitor', 'bitxor', 'lshift', 'rshift', '__add__', '__sub__', '__mul__', '__truediv__',
       '__floordiv__', '__mod__', '__pow__', '__lshift__', '__rshift__', '__and__', '__or__', '__xor__', '__lt__',
       '__le__', '__eq__', '__ne__', '__gt__', '__ge__'}


# ------------------------------------------------------------------ shapes enumerated by TLC
SHAPE_OPS = [('__sub__', 'dunder'), ('mod', 'builtin'), ('thresh', 'method'), ('__truediv__', 'dunder'),
             ('round', 'method'), ('__pow__', 'dunder'), ('min', 'builtin'), ('__lt__', 'dunder'), ('atan2', 'method'),
             ('__floordiv__', 'dunder'), ('scaleneg', 'builtin'), ('__and__', 'dunder'), ('ring4', 'method'),
             ('__mod__', 'dunder'), ('excess', 'builtin'), ('__mul__', 'dunder')]
HAS_R = {'__sub__', '__truediv__', '__pow__', '__floordiv__', '__and__', '__mod__', '__mul__'}


def tlc_shapes(ctx):
    from harness import tlc
    import json
    r = tlc.run('OpsShapes', 'OpsShapes.cfg', ctx.work, workers=1, timeout=300)
    if not r.ok:
        raise MachineryError('shape enumeration failed:\n' + r.output[-2000:])
    ctx.cov['states'] += r.distinct
    ctx.cov['transitions'] += r.generated
    shapes = []
    lazy = []
    calls = []
    for line in r.output.splitlines():
        line = line.strip()
        if line.startswith('<<"SHAPE"'):
            shapes.append(json.loads(tlc.parse_value(line)[1]))
        elif line.startswith('<<"LAZY"'):
            lazy.append(json.loads(tlc.parse_value(line)[1]))
        elif line.startswith('<<"CALL"'):
            calls.append(json.loads(tlc.parse_value(line)[1]))
    if len(shapes) < 100 or len(lazy) < 1000:
        raise MachineryError('only %d shapes / %d lazy compositions enumerated' % (len(shapes), len(lazy)))
    lazy.sort(key=lambda d: json.dumps(d, sort_keys=True))
    calls.sort(key=lambda d: json.dumps(d, sort_keys=True))
    if len(calls) < 500:
        raise MachineryError('only %d function-call cases enumerated' % len(calls))
    return shapes, lazy, calls


# ------------------------------------------------------------------ function composites x call shapes (from TLC)
CALL_UN = [('neg', 'method'), ('__neg__', 'dunder'), ('midicps', 'builtin'), ('squared', 'method'), ('__abs__', 'dunder'),
           ('reciprocal', 'builtin'), ('sign', 'method')]
CALL_BIN = [('__sub__', 'dunder'), ('mod', 'builtin'), ('thresh', 'method'), ('__truediv__', 'dunder'), ('min', 'builtin'),
            ('__floordiv__', 'dunder'), ('round', 'method'), ('absdif', 'builtin'), ('__mod__', 'dunder'), ('__lt__', 'dunder')]
CALL_NAR = [('clip', 'method'), ('wrap', 'builtin'), ('fold', 'method'), ('blend', 'method'), ('clip', 'builtin'),
            ('blend', 'builtin'), ('wrap', 'method'), ('fold', 'builtin')]


def gen_calls(call_cases, rnd, thorough):
    out = []
    per = 3 if thorough else 1
    for i, cc in enumerate(call_cases):
        for j in range(per):
            v = i * 3 + j
            out.append(dict(ty='call', tpl=cc['tpl'], sigs=cc['sigs'], calls=cc['calls'],
                            ops=dict(u=list(CALL_UN[v % len(CALL_UN)]), b=list(CALL_BIN[(v // 2) % len(CALL_BIN)]),
                                     n=list(CALL_NAR[(v // 3) % len(CALL_NAR)])),
                            num=rnd.choice(POOL), fl=rnd.randrange(2)))
    return out


# ------------------------------------------------------------------ lazily evaluated compositions (from TLC)
LAZY_UN = [('neg', 'method'), ('__neg__', 'dunder'), ('midicps', 'builtin'), ('squared', 'method'), ('__abs__', 'dunder'),
           ('sign', 'builtin'), ('reciprocal', 'method'), ('__invert__', 'dunder'), ('frac', 'builtin'), ('log', 'method')]
LAZY_BIN = [('__sub__', 'dunder'), ('mod', 'builtin'), ('thresh', 'method'), ('__truediv__', 'dunder'),
            ('round', 'method'), ('__pow__', 'dunder'), ('min', 'builtin'), ('__lt__', 'dunder'), ('atan2', 'method'),
            ('__floordiv__', 'dunder'), ('scaleneg', 'builtin'), ('ring4', 'method'), ('__mod__', 'dunder'),
            ('excess', 'builtin'), ('__mul__', 'dunder'), ('round', 'builtin'), ('trunc', 'builtin')]
LAZY_NAR = [('clip', 'method'), ('wrap', 'builtin'), ('fold', 'method'), ('blend', 'method'), ('clip', 'builtin'),
            ('blend', 'builtin'), ('wrap', 'method'), ('moddif', 'method'), ('fold', 'builtin')]
LAZY_NAR_LONG = [('linlin', 'method', 4), ('linexp', 'builtin', 4), ('lincurve', 'method', 5), ('expexp', 'method', 4),
                 ('linlin', 'builtin', 4), ('curvelin', 'method', 5), ('bilin', 'method', 6), ('lg3interp', 'builtin', 4)]
HOWS = {('reset1', 0): ['reset1'], ('reset2', 0): ['reset2'], ('once', 0): ['stream'], ('once', 1): ['embed', 'nested'], ('tail', 1): ['tail'],
        ('twice', 1): ['twice', 'twice2'], ('inter', 0): ['inter'], ('inter', 1): ['inter-nested']}
HOWS_T = {('once', 1): ['embed', 'nested', 'nested2']}


def lazy_operands(g, ops, variant):
    """operand descriptions (values, sources) for a TLC operand vector; one description per stream identity"""
    out = []
    by_sid = {}
    for k, o in enumerate(ops):
        kind = o['k']
        if o.get('rd'):        # reads the input value: Pfunc / Pfuncn / Pkey, FunctionStream
            out.append(dict(k=kind, n=o['n'], rd=1, vals=g.vals(1, ints=True), src=['pfunc', 'pkey'][(variant + k) % 2],
                            sid=o['sid']))
        elif kind == 'num':
            out.append(dict(k='num', v=g.vals(1)[0], sid=o['sid']))
        elif kind == 'fn':
            out.append(dict(k='fn', vals=g.vals(3), src=['', 'composed'][(variant + k) % 2], sid=o['sid']))
        elif kind == 'pat':
            out.append(dict(k='pat', vals=g.vals(o['n']), src=['pseq', 'gen', 'composed'][(variant + k) % 3], sid=o['sid']))
        else:
            if o['sid'] not in by_sid:
                by_sid[o['sid']] = dict(k=kind, vals=g.vals(o['n']), src=['pseq', 'composed'][(variant + k) % 2],
                                        sid=o['sid'])
            out.append(dict(by_sid[o['sid']]))
    return out


def gen_lazy(lazy, rnd, thorough):
    g = Gen(rnd)
    cases = []
    per = 3 if thorough else 1
    for i, sh in enumerate(lazy):
        ops = sh['ops']
        m = len(ops)
        if not thorough and sh['law'] == 'reset2' and m == 3:
            continue            # quick: reset after two calls only for unary / binary compositions
        hows = list(HOWS[(sh['law'], sh['gen'])])
        if thorough:
            hows = HOWS_T.get((sh['law'], sh['gen']), hows)
        for how in hows:
            for j in range(per):
                v = i * 5 + j
                if m == 1:
                    op, form = LAZY_UN[v % len(LAZY_UN)]
                elif m == 2:
                    op, form = LAZY_BIN[v % len(LAZY_BIN)]
                    if ops[0]['k'] == 'num':        # reflected forms only
                        if form == 'dunder':
                            if op not in HAS_R:
                                op = '__sub__'
                            op, form = '__r' + op[2:], 'rdunder'
                        elif form == 'method':
                            op, form = 'mod', 'builtin'
                else:
                    op, form = LAZY_NAR[v % len(LAZY_NAR)]
                cases.append(dict(ty='lazy', op=op, form=form, ops=lazy_operands(g, ops, v), law=sh['law'],
                                  gen=sh['gen'], how=how, invs=sh.get('invs', [0]), ivmode=['num', 'dict'][v % 2]))
        # operators with more arguments: the two further operand kinds take two of the argument positions
        if m == 3 and (thorough or i % 4 == 0):
            op, form, nargs = LAZY_NAR_LONG[i % len(LAZY_NAR_LONG)]
            p1 = i % nargs
            p2 = (p1 + 1 + (i // nargs) % (nargs - 1)) % nargs
            lo, hi = sorted((p1, p2))
            base = lazy_operands(g, ops, i)
            full = [base[0]]
            nums = NARY_ARGS[op][0]
            slot = {lo: base[1], hi: base[2]}
            for a in range(nargs):
                if a in slot:
                    full.append(slot[a])
                else:
                    full.append(dict(k='num', v=nums[a] if a < len(nums) else I(1), sid=100 + a))
            # identities refer to positions: keep shared streams shared, make the others unique
            how = rnd.choice(HOWS[(sh['law'], sh['gen'])])
            cases.append(dict(ty='lazy', op=op, form=form, ops=full, law=sh['law'], gen=sh['gen'], how=how,
                              invs=sh.get('invs', [0]), ivmode=['num', 'dict'][i % 2]))
    return cases


def spec_of(g, kind, T, variant):
    """operand description for a TLC tree (node array)"""
    rnd = g.rnd
    if kind in ('num', 'opd', 'rest'):
        return g.operand(kind)
    if kind == 'list':
        def rec(n, top):
            node = T[n - 1]
            if node['k'] == 'leaf':
                return g.vals(1)[0]
            return ['C' if top else rnd.choice('LLT'), [rec(k, False) for k in node['c']]]
        return dict(tree=rec(1, True))
    n = len(T[0]['c'])
    d = g.operand(kind, variant, n=n)
    if kind == 'fn':
        d['vals'] = g.vals(3)
    else:
        d['vals'] = g.vals(n)
    return d


def gen_from_shapes(shapes, rnd, per_shape):
    g = Gen(rnd)
    for i, sh in enumerate(shapes):
        ka, kb = sh['ka'], sh['kb']
        if 'fn' in (ka, kb) and max(len(sh['A'][0]['c']), len(sh['B'][0]['c'])) != 3:
            continue        # functions are sampled at 3 points
        for j in range(per_shape):
            op, form = SHAPE_OPS[(i * 7 + j) % len(SHAPE_OPS)]
            A = spec_of(g, ka, sh['A'], i + j)
            if kb == 'same':
                g.lift(op, form, 2, ka, A, 'same', A)
                continue
            B = spec_of(g, kb, sh['B'], i + j + 1)
            if ka == 'num':
                if kb == 'num':
                    continue
                if form == 'dunder':
                    if op not in HAS_R:
                        continue
                    g.lift('__r' + op[2:], 'rdunder', 2, ka, A, kb, B)
                elif form == 'builtin':
                    g.lift(op, 'builtin', 2, ka, A, kb, B)
                continue
            g.lift(op, form, 2, ka, A, kb, B)
            if ka == 'pat' and kb in ('pat', 'num'):
                g.lift(op, form, 2, ka, A, kb, B, how='embed')
    return g.cases


# ------------------------------------------------------------------ kernel laws
def gen_range(rnd, thorough):
    out = []
    W = list(range(-32, 33)) if thorough else list(range(-16, 17, 1))
    bounds = [(-8, 8), (0, 8), (0, 16), (4, 12), (-12, -4), (3, 11), (-5, 6), (0, 1), (8, 8), (-16, 16), (0, 24), (2, 3)]
    types = ['iii', 'fff', 'fii', 'iff', 'fif', 'ffi', 'iif']

    def arg(t, v):
        return dict(t=t, v=v)

    for fn in ('wrap', 'fold', 'clip'):
        for lo, hi in bounds:
            for ty in types:
                if (ty[1] == 'i' and lo % 8) or (ty[2] == 'i' and hi % 8):
                    continue
                for x in W:
                    if ty[0] == 'i' and x % 8:
                        continue
                    out.append(dict(ty='range', fn=fn, a=[arg(ty[0], x), arg(ty[1], lo), arg(ty[2], hi)]))
    for fn in ('wrap2', 'fold2'):
        for b in (8, 16, 4, 12, 3):
            for ty in ('ii', 'ff', 'fi', 'if'):
                if ty[1] == 'i' and b % 8:
                    continue
                for x in W:
                    if ty[0] == 'i' and x % 8:
                        continue
                    out.append(dict(ty='range', fn=fn, a=[arg(ty[0], x), arg(ty[1], b)]))
    for fn in ('round', 'roundup', 'trunc'):
        for q in (0, 1, 2, 3, 4, 5, 8, 12, 16, 20, 24):
            for ty in ('ii', 'ff', 'fi', 'if'):
                if ty[1] == 'i' and q % 8:
                    continue
                for x in W:
                    if ty[0] == 'i' and x % 8:
                        continue
                    out.append(dict(ty='range', fn=fn, a=[arg(ty[0], x), arg(ty[1], q)]))
    for m in (1, 2, 3, 4, 8, 12, 16, 20, 24):
        for ty in ('ii', 'ff', 'fi', 'if'):
            if ty[1] == 'i' and m % 8:
                continue
            for x in W + [40, -40, 64, -64, 100, -100]:
                if ty[0] == 'i' and x % 8:
                    continue
                out.append(dict(ty='range', fn='mod', a=[arg(ty[0], x), arg(ty[1], m)]))
    # seeded random larger arguments
    for _ in range(20000 if thorough else 600):
        fn = rnd.choice(['wrap', 'fold', 'clip', 'round', 'roundup', 'trunc', 'mod'])
        x = rnd.randint(-800, 800)
        if fn in ('wrap', 'fold', 'clip'):
            lo = rnd.randint(-80, 80)
            hi = lo + rnd.randint(0 if fn == 'clip' else 1, 160)
            a = [x, lo, hi]
        else:
            a = [x, rnd.randint(0 if fn != 'mod' else 1, 80)]
        ty = [rnd.choice('if') for _ in a]
        a = [arg(t, (v // 8) * 8 if t == 'i' else v) for t, v in zip(ty, a)]
        if fn in ('wrap', 'fold') and a[1]['v'] >= a[2]['v']:
            continue
        if fn == 'clip' and a[1]['v'] > a[2]['v']:      # truncating an int bound may have crossed them
            continue
        if fn == 'mod' and a[1]['v'] <= 0:
            continue
        out.append(dict(ty='range', fn=fn, a=a))
    return out


def gen_inv():
    out = []
    for fn in ('midicps', 'cpsmidi', 'midiratio', 'ratiomidi', 'octcps', 'cpsoct'):
        for k in range(-5, 7):
            for fl in (0, 1):
                out.append(dict(ty='inv', fn=fn, k=k, fl=fl))
    for fn in ('dbamp', 'ampdb'):
        for k in range(-4, 5):
            for fl in (0, 1):
                out.append(dict(ty='inv', fn=fn, k=k, fl=fl))
    return out


# ------------------------------------------------------------------ running
def run_cases(ctx, cases):
    for i, c in enumerate(cases):
        c['id'] = i
    n = len(cases)
    per = max(1, (n + 15) // 16)
    inputs = [dict(mode='cases', cases=cases[i:i + per]) for i in range(0, n, per)]
    outs = ctx.run_drivers(DRIVER, inputs)
    traces = [t for o in outs for t in o['traces']]
    if len(traces) != n:
        raise MachineryError('driver returned %d traces for %d cases' % (len(traces), n))
    return traces


def brief(c):
    if c['ty'] == 'lift':
        d = {k: c[k] for k in ('op', 'form', 'ka', 'kb', 'A', 'B', 'extra', 'pos', 'how') if c.get(k) not in ([], {}, None)}
        return d
    return {k: v for k, v in c.items() if k not in ('id', 'r', 'r2', 'rt')}


def kinds_sig(c):
    return '%s/%s' % (c['ka'], c['kb'])


def judge(ctx, cases, traces):
    verdicts = ctx.validate('TraceOps', 'TraceOps.cfg', traces)
    groups = ctx.cov.setdefault('groups', {})
    for c, t in zip(cases, traces):
        key = c['ty'] if c['ty'] != 'lift' else 'lift:%s' % c['form']
        gsum = groups.setdefault(key, dict(cases=0, accepted=0))
        gsum['cases'] += 1
        v = verdicts[t['id']]
        if c['ty'] == 'lift':
            if c['ka'] != 'num' or c['kb'] not in ('num', 'none'):
                ctx.nontrivial(brief(c))
        else:
            ctx.nontrivial(brief(c))
        if v is None:
            gsum['accepted'] += 1
            continue
        why = v[1]
        if c['ty'] == 'lift':
            sig = 'lift:%s:%s:%s:%s' % (c['op'], c['form'], kinds_sig(c), why)
            if c['ar'] == 3 and c['form'] == 'method' and c['ka'] == 'list' and why.startswith('raised:'):
                sig = 'lift:nary:method:%s:%s' % (kinds_sig(c), why)       # one call site: ChannelList n-ary overrides
            obs = dict(O=t['O'][:6], tab=t['tab'][:3])
            what = ('composed %s (%s form) over %s: evaluation differs from the kernel applied to the evaluated '
                    'operands (%s); case %s; observed root %s; kernel table row %s'
                    % (c['op'], c['form'], kinds_sig(c), why, brief(c), t['O'][:3], t['tab'][0][:3]))
        elif c['ty'] == 'lazy':
            kinds = '/'.join(o['k'] for o in c['ops'])
            arity = {1: 'unary', 2: 'binary'}.get(len(c['ops']), 'nary')
            sig = 'lazy:%s:%s:%s:%s:%s' % (arity, c['form'], kinds, c['how'], why)
            if 'fn' in kinds.split('/') and (arity == 'nary' or c['form'] == 'builtin'):
                # one root cause (see known_findings.d/C15.json): a Function among the operands reaches the raw kernel
                sig = 'lazy:fn-operand:%s:%s' % (arity, c['form'])
            obs = dict(O=t['O'][:8], tab=t['tab'][:6])
            what = ('composed %s (%s form) over operands %s, traversed as %s (%s%s): the outcomes of next() differ from '
                    'the kernel applied to the elements the operands deliver (%s); operands %s; observed %s; kernel '
                    'table %s' % (c['op'], c['form'], kinds, c['how'], c['law'], ', generator' if c['gen'] else '', why,
                                  c['ops'], [(o['v']['s'], [x['s'] for x in o['c']]) for o in t['O'][:8]],
                                  [x['s'] for x in t['tab'][:8]]))
        elif c['ty'] == 'call':
            sig = 'callshape:%s:%s' % (c['tpl'], why)
            obs = dict(O=t['O'], leaves=t['leaves'])
            what = ('composite %s of functions with parameters %s (operators %s), called with %s: %s; answers %s; base '
                    'functions alone %s' % (c['tpl'], c['sigs'], c['ops'], c['calls'], why, [o['s'] for o in t['O']],
                                            [[x['s'] for x in row] for row in t['leaves']]))
        elif c['ty'] == 'range':
            ty = ''.join(a['t'] for a in c['a'])
            sig = 'range:%s:%s:%s' % (c['fn'], ty, why)
            obs = dict(r=t['r'], r2=t['r2'])
            what = ('%s(%s) [units of 1/8, types %s] -> %s: law %s fails'
                    % (c['fn'], ', '.join(str(a['v']) for a in c['a']), ty, t['r'], why))
        else:
            sig = 'inv:%s:%s' % (c['fn'], why)
            obs = dict(r=t['r'], rt=t['rt'])
            what = '%s at exact point k=%d: %s (value*2^16 %s, round trip %s)' % (c['fn'], c['k'], why, t['r'], t['rt'])
        ctx.violation(sig, what, dict(kind='case', case={k: v for k, v in c.items() if k != 'id'}, why=why, observed=obs))
    ctx.cov['evaluations'] += len(traces)


def get_catalog(ctx):
    return ctx.run_driver(DRIVER, dict(mode='catalog'))


def run(ctx):
    thorough = not ctx.quick
    rnd = random.Random(ctx.seed + 15)
    stage = ctx.cov.setdefault('stage_s', {})
    acts = ('PickList', 'PickFn', 'PickStream', 'PickScalar', 'PickSame', 'PickLazy', 'PickKernel')
    r = ctx.model_check('Ops', 'Ops_thorough.cfg' if thorough else 'Ops.cfg', require_cover=acts, timeout=900)
    ctx.expect_ok(r, 'Ops structure and kernel-law model')
    r = ctx.model_check('OpsStream', 'OpsStream_thorough.cfg' if thorough else 'OpsStream.cfg',
                        require_cover=('DrawA', 'DrawB'), timeout=300)
    ctx.expect_ok(r, 'BinopStream draw order refines the stream law')
    # the lazy-composition laws (no coverage mode: it runs out of memory on them) are checked while the library is driven
    from concurrent.futures import ThreadPoolExecutor
    lazy_pool = ThreadPoolExecutor(max_workers=1)
    lazy_future = lazy_pool.submit(lambda: ctx.model_check('Ops', 'OpsLazyAccept.cfg', timeout=900, workers=6,
                                                           label='laws of lazily evaluated compositions'))
    stage['model'] = round(time.time() - ctx.t0, 1)

    cat = get_catalog(ctx)
    ctx.cov['operators'] = dict(methods=len(cat['methods']), builtins=len(cat['builtins']))
    cases, skipped = gen_lift(cat, rnd, thorough)
    for name in skipped:
        ctx.note_drift('operator %s has no argument set in the generator (not exercised)' % name)
    shapes, lazy, call_cases = tlc_shapes(ctx)
    shaped = gen_from_shapes(shapes, rnd, len(SHAPE_OPS) if thorough else 4)
    lazy_cases = gen_lazy(lazy, rnd, thorough)
    ctx.cov['tlc_enumerated_lazy_compositions'] = len(lazy)
    ctx.cov['cases_from_tlc_lazy'] = len(lazy_cases)
    cases += lazy_cases
    called = gen_calls(call_cases, rnd, thorough)
    ctx.cov['tlc_enumerated_call_cases'] = len(call_cases)
    cases += called
    ctx.cov['tlc_enumerated_shapes'] = len(shapes)
    ctx.cov['cases_from_tlc_shapes'] = len(shaped)
    cases += shaped
    nl = len(cases)
    cases += gen_range(rnd, thorough)
    nr = len(cases) - nl
    cases += gen_inv()
    t1 = time.time()
    traces = run_cases(ctx, cases)
    stage['drive'] = round(time.time() - t1, 1)
    t1 = time.time()
    judge(ctx, cases, traces)
    stage['validate'] = round(time.time() - t1, 1)
    t1 = time.time()
    ctx.expect_ok(lazy_future.result(), 'laws of lazily evaluated compositions')
    lazy_pool.shutdown()
    stage['wait_for_lazy_model'] = round(time.time() - t1, 1)
    ex = [t for c, t in zip(cases, traces) if c['ty'] == 'lift' and c['ka'] == 'list' and c['kb'] == 'list'][:1]
    for t in ex:
        ctx.sample(dict(op=t['op'], form=t['form'], A=t['A'], B=t['B'], tab=t['tab'], O=t['O']))
    ops = sorted({c['op'] for c in cases if c['ty'] == 'lift'})
    ctx.cov['operator_names_exercised'] = len(ops)
    ctx.cov['rule'] = (
        '%d compositions (of which %d instantiate the %d (kind, kind, shape, shape) cases enumerated by TLC from the lifting model): every operator name found by introspection (%d AbstractObject methods, %d scbuiltin '
        'functions; %d exercised) x forms (method, Python operator, reflected operator, module function, module '
        'function with the number on the left, list_unop/list_binop/list_narop) x operand-kind pairs (number, Function '
        '1/2 args and composed, Stream from Pseq/Routine/composed, same stream twice, Pattern Pseq/@pattern/composed, '
        'embed, ChannelList / list / tuple flat and nested with wrap-around, Operand, Rest) with seeded leaf values; '
        '%d range-law applications (exhaustive lattice window x type mixes + random); %d inverse-pair points; '
        'non-trivial = a non-number operand is involved' % (nl, len(shaped), len(shapes), len(cat['methods']), len(cat['builtins']), len(ops), nr,
                                                            len(cases) - nl - nr))
    ctx.cov['exhaustive'] = True
    ctx.assumptions += [
        'the numeric kernel of an operator name is the Python operator for names that are Python operators on '
        'numbers (+ - * / // ** << >> & | ^ comparisons, neg abs bitnot not_ pow bitand bitor bitxor lshift rshift) '
        'and sc3.base.builtins.<name> otherwise; % round trunc ceil floor use the builtins as documented',
        'random kernels are made functions by a deterministic stand-in generator; distributions are not judged',
        'values of transcendental kernels are not judged (only that lifted and direct results are identical)',
        'inverse laws only at the exact points (69+12k, 12k, 4.75+k, 20k); range laws only on the 1/8 lattice',
        'UGen operands (graph building) are covered by C01/C03, not here']


def replay(ctx, rp):
    c = dict(rp['replay']['case'])
    traces = run_cases(ctx, [c])
    judge(ctx, [c], traces)
    ctx.sample(dict(case=brief(c), observed={k: traces[0].get(k) for k in ('O', 'tab', 'r', 'r2', 'rt') if k in traces[0]}))


MANIFEST = dict(
    category='model_checking',
    text=('Ops.tla defines, with an uninterpreted kernel, which evaluated leaves of two operands must meet and what '
          'shape the result has for each operand kind (scalar, wrap-and-zip lists, pointwise functions, shortest '
          'stream, one stream on both sides) and the range / inverse laws of the numeric kernels in integer '
          'arithmetic; TLC checks these operators on sample trees and the whole lattice window, then decides every '
          'recorded composition of the real library (all operator names x forms x operand-kind pairs x shapes; kernel '
          'values obtained by calling the real kernel on plain numbers) and every recorded kernel application.'),
    note=('Uniformity is decided exactly (values compared as exact text, exceptions by class). Kernel values themselves '
          'are only judged by the listed laws on the exact lattice / exact points; transcendental accuracy, random '
          'distributions and inverse laws off the exact points are not decided. The name->numeric-operator table of the '
          'driver is trusted.'),
    technique='TLA+ structural law with uninterpreted kernel + integer kernel laws model-checked by TLC; batch trace validation of enumerated compositions and lattice applications',
    design_ref='DESIGN.md section 3 / C15',
    engine='Ops, OpsStream',
)
