"""C13 - patterns denote the sequences their definitions say, compositionally; patterns are immutable.

Decided by: Pattern.tla (denotation D of pattern expressions by structural recursion, from the documented
meaning of each class) + PatternModel.tla (TLC enumerates all expressions of depth <= 2 over small leaves and
parameters, checks the laws of the denotation on them, runs the stream machine for `Immutable`, and exports the
expressions).  Binding S->C: every exported expression (and TLC-simulated stream schedules) is built as a real sc3
pattern and run; C->S: what the real streams returned is validated by TracePattern.tla (TLC computes D and compares).
Seeded random deeper expressions and Pseed-wrapped random patterns go through the same trace validation."""
import json
import os
import random

from harness.common import MachineryError

DRIVER = 'drivers/c13_patterns.py'
INF = 1000000
JVM = {'JAVA_TOOL_OPTIONS': '-Xss64m'}
MACHINERY_WHYS = ('undefined', 'no-stream', 'beyond')


# ------------------------------------------------------------------ expression helpers (structure only)
def I(v):
    return {'t': 'int', 'v': v}


def tags(x, acc=None):
    acc = [] if acc is None else acc
    if isinstance(x, dict):
        if 't' in x:
            acc.append(x['t'])
        for v in x.values():
            tags(v, acc)
    elif isinstance(x, list):
        for v in x:
            tags(v, acc)
    return acc


def depth(x):
    if not isinstance(x, dict) or x.get('t') in ('int', 'lit'):
        return 0
    d = 0
    for v in x.values():
        if isinstance(v, dict):
            d = max(d, depth(v))
        elif isinstance(v, list):
            for i in v:
                if isinstance(i, dict):
                    d = max(d, depth(i))
    return d + (0 if x.get('t') == 'arr' else 1)


def show(x):
    """compact rendering for evidence samples / messages"""
    if not isinstance(x, dict):
        return str(x)
    t = x.get('t')
    if t == 'int':
        return str(x['v'])
    if t == 'lit':
        return str(x['w'])
    parts = []
    for k in sorted(x):
        if k in ('t', 'tp'):
            continue
        v = x[k]
        if isinstance(v, list):
            parts.append('[' + ','.join(show(i) for i in v) + ']')
        elif isinstance(v, dict):
            parts.append(show(v))
        else:
            parts.append('inf' if v == INF else str(v))
    return '%s(%s)' % (t, ','.join(parts))


# ------------------------------------------------------------------ schedules (which calls are made; no expectations)
def schedule(rnd, n, finite_ops=True):
    """stream 1: take n through stream.next(inval); streams 2 (iterator protocol) and 3 (stream or embedding
    generator) advanced in a random interleaving; stream 1 reset and re-read; list()/all() if the pattern is finite"""
    s = [['new', 1, 'stream'], ['take', 1, n - 1], ['next', 1, 0],
         ['new', 2, 'iter'], ['new', 3, rnd.choice(['stream', 'embed'])]]
    left = {2: n, 3: n}
    for _ in range(rnd.randint(4, 10)):
        i = rnd.choice([2, 3])
        if left[i] <= 0:
            continue
        if rnd.random() < 0.3 and left[i] >= 2:
            k = rnd.randint(2, min(3, left[i]))
            s.append(['take', i, k])
            left[i] -= k
        else:
            s.append(['next', i, 0])
            left[i] -= 1
    k = rnd.randint(1, 3)
    s += [['reset', 1, 0], ['take', 1, k], ['new', 4, 'stream'], ['take', 4, rnd.randint(1, n)]]
    if left[2] > 0:
        s.append(['next', 2, 0])
    if finite_ops:
        s += [['list?', 0, 0], ['new?', 5, 'stream'], ['take?', 5, 1], ['all?', 5, 0]]
        # a finished stream stays finished: ask every stream again, read the same stream objects a second time
        s += [['next?', 5, 0], ['all?', 5, rnd.choice([0, 'list'])], ['next?', 1, 0], ['next?', 1, 0], ['take?', 4, n],
              ['all?', 2, 'list'], ['next?', 2, 0], ['all?', 3, 'list'], ['all?', 3, 'list'], ['next?', 4, 0]]
    return s


# ------------------------------------------------------------------ seeded random expression generator
class Gen:
    """random well-formed expressions (structure only).  Rules keep every expression inside what the oracle
    defines: numbers only under arithmetic, finite sources under filters that may discard for ever, no endless
    empty repeats.  A case the oracle still calls undefined is a generator bug (machinery error), not a verdict."""

    def __init__(self, rnd):
        self.r = rnd
        self.noif = 0       # (kept for steering generators around a listed finding; unused since the Pif fix 7e0cea6)

    def ints(self, k=None):
        return [I(self.r.randint(0, 4)) for _ in range(k or self.r.randint(1, 4))]

    def num(self, d, fin=False, nonempty=False):
        """a pattern yielding numbers; fin: finite; nonempty: yields at least one value"""
        r = self.r
        if d <= 0:
            c = r.random()
            if c < 0.4:
                return {'t': 'seq', 'l': self.ints(), 'r': r.choice([1, 1, 2] if fin else [1, 2, INF]), 'o': r.choice([0, 0, 1])}
            if c < 0.6:
                return {'t': 'series', 'k': r.randint(-2, 3), 'st': I(r.choice([1, 2, -1])), 'r': r.choice([2, 3, 5] if fin else [3, 5, INF])}
            if c < 0.7:
                return {'t': 'geom', 'k': r.choice([1, 2, -1]), 'st': I(r.choice([2, -1, -2])), 'r': r.choice([2, 3, 4])}
            if c < 0.85:
                return {'t': 'ser', 'l': self.ints(), 'r': r.choice([1, 3, 5] if fin else [2, 5, INF]), 'o': r.choice([0, 1, 2])}
            l = self.ints(r.randint(2, 4))
            return {'t': 'slide', 'l': l, 'n': I(r.randint(1, 3)), 'st': I(r.choice([1, -1, 2])),
                    'k': r.randint(0, len(l) - 1), 'wr': r.random() < 0.6, 'r': r.choice([1, 2, 3] if fin else [2, 3, INF])}
        sub = lambda **kw: self.num(d - 1, **kw)
        c = r.choice(['seq', 'ser', 'pn', 'len', 'drop', 'stut', 'diff', 'const', 'switch', 'switch1', 'place', 'placep', 'slide',
                      'series', 'collect', 'select', 'reject', 'if', 'wrap', 'unop', 'binop', 'narop', 'flatclump'])
        if c in ('seq', 'ser'):
            l = [sub(fin=fin, nonempty=True) if r.random() < 0.6 else I(r.randint(0, 4)) for _ in range(r.randint(1, 3))]
            if not any(i['t'] == 'int' for i in l):
                l.append(I(r.randint(0, 4)))
            return {'t': c, 'l': l, 'r': r.choice([1, 2, 3] if fin else [1, 2, INF]), 'o': r.randint(-1, len(l) - 1)}
        if c == 'pn':
            return {'t': 'pn', 'p': sub(fin=fin, nonempty=True), 'r': r.choice([1, 2] if fin else [2, INF])}
        if c == 'len':
            return {'t': 'len', 'p': sub(nonempty=nonempty), 'k': r.randint(1, 5)}
        if c == 'drop':
            if nonempty:
                return {'t': 'len', 'p': sub(nonempty=True), 'k': r.randint(1, 5)}
            return {'t': 'drop', 'p': sub(fin=fin), 'k': r.randint(0, 4)}
        if c == 'stut':
            return {'t': 'stut', 'p': sub(fin=fin, nonempty=nonempty), 'n': I(r.randint(1, 3)) if (nonempty or r.random() < 0.5)
                    else {'t': 'seq', 'l': [I(r.randint(0, 2)) for _ in range(3)] + [I(1)], 'r': INF, 'o': 0}}
        if c == 'diff':
            if nonempty:
                return sub(fin=fin, nonempty=True)
            return {'t': 'diff', 'p': sub(fin=fin)}
        if c == 'const':
            return {'t': 'const', 'p': sub(fin=fin), 'k': r.randint(2, 9), 'tl': r.choice([0, 0, 1, 2, 3, 4])}
        if c in ('switch', 'switch1'):
            l = [sub(fin=True, nonempty=True) if r.random() < 0.5 else I(r.randint(0, 4)) for _ in range(r.randint(2, 3))]
            w = {'t': 'seq', 'l': self.ints(r.randint(2, 4)), 'r': r.choice([1, 2]), 'o': 0}
            return {'t': c, 'l': l, 'a': w}
        if c == 'placep':
            l = [sub(fin=True) if r.random() < 0.7 else I(r.randint(0, 4)) for _ in range(r.randint(2, 3))]
            if fin or nonempty:
                l.append(sub(fin=True, nonempty=True))
            reps = r.choice([1, 2, 4, INF])
            if all(i['t'] != 'int' for i in l) or reps != INF:
                return {'t': 'placep', 'l': l, 'r': reps if not (fin and reps == INF and any(i['t'] == 'int' for i in l)) else 3, 'o': r.randint(0, 1)}
            return {'t': 'placep', 'l': l, 'r': 3 if fin else reps, 'o': r.randint(0, 1)}
        if c == 'place':
            l = [I(r.randint(0, 4)), {'t': 'arr', 'l': [sub(fin=True, nonempty=True), I(r.randint(0, 4))]}]
            if r.random() < 0.5:
                l.append({'t': 'arr', 'l': self.ints(3)})
            return {'t': 'place', 'l': l, 'r': r.choice([1, 2, 3, 4]), 'o': r.randint(0, 1)}
        if c == 'slide':
            l = [sub(fin=True, nonempty=True) if r.random() < 0.4 else I(r.randint(0, 4)) for _ in range(r.randint(2, 4))]
            return {'t': 'slide', 'l': l, 'n': I(r.randint(1, 3)), 'st': I(r.choice([1, -1, 2])), 'k': r.randint(0, len(l) - 1),
                    'wr': r.random() < 0.6, 'r': r.choice([1, 2, 3])}
        if c == 'series':
            return {'t': 'series', 'k': r.randint(-2, 3), 'st': sub(fin=fin, nonempty=nonempty), 'r': r.choice([3, 5, INF])}
        if c == 'collect':
            return {'t': 'collect', 'f': r.choice(['inc', 'dbl', 'neg', 'abs']), 'p': sub(fin=fin, nonempty=nonempty)}
        if c in ('select', 'reject'):
            if nonempty:
                return sub(fin=fin, nonempty=True)
            return {'t': c, 'f': r.choice(['even', 'odd', 'gt1', 'le2']), 'p': sub(fin=True)}
        if c == 'if' and self.noif:
            return sub(fin=fin, nonempty=nonempty)
        if c == 'if':
            cond = {'t': 'seq', 'l': [I(r.randint(0, 1)) for _ in range(r.randint(2, 4))], 'r': r.choice([1, 2, INF]), 'o': 0}
            if fin:
                cond['r'] = r.choice([1, 2])
            if nonempty:
                return sub(fin=fin, nonempty=True)
            return {'t': 'if', 'a': cond, 'b': sub(), 'c': sub() if r.random() < 0.5 else I(r.randint(0, 4))}
        if c == 'wrap':
            lo = r.randint(-1, 2)
            return {'t': 'wrap', 'p': sub(fin=fin, nonempty=nonempty), 'a': I(lo), 'b': I(lo + r.randint(0, 3))}
        if c == 'unop':
            return {'t': 'unop', 'f': r.choice(['neg', 'abs']), 'a': sub(fin=fin, nonempty=nonempty)}
        if c == 'binop':
            a, b = sub(fin=fin, nonempty=nonempty), (sub(nonempty=nonempty) if r.random() < 0.5 else I(r.randint(0, 4)))
            if r.random() < 0.5:
                a, b = b, a
            if a['t'] == 'int' and b['t'] == 'int':
                b = sub(fin=fin, nonempty=nonempty)
            return {'t': 'binop', 'f': r.choice(['add', 'sub', 'min', 'max']), 'a': a, 'b': b}
        if c == 'narop':
            lo = r.randint(-1, 2)
            return {'t': 'narop', 'f': r.choice(['clip', 'wrap']), 'a': sub(fin=fin, nonempty=nonempty), 'b': I(lo),
                    'c': I(lo + r.randint(0, 3))}
        # flatten of clump: numbers again
        return {'t': 'flat', 'p': {'t': 'clump', 'p': sub(fin=fin, nonempty=nonempty), 'n': I(r.randint(1, 3))}, 'n': I(1)}

    def lin(self, d, fin=False):
        """expressions linear in their values (may be put on a dyadic lattice with 'sc'); Pconst with tolerances inside"""
        r = self.r
        vals = lambda k=None: [I(r.randint(0, 13)) for _ in range(k or r.randint(1, 4))]
        if d <= 0:
            if r.random() < 0.7:
                return {'t': 'seq', 'l': vals(), 'r': r.choice([1, 2] if fin else [1, 2, INF]), 'o': r.choice([0, 0, 1])}
            return {'t': 'series', 'k': r.randint(-3, 5), 'st': I(r.choice([1, 2, 3, 5])), 'r': r.choice([3, 6] if fin else [4, INF])}
        sub = lambda **kw: self.lin(d - 1, **kw)
        c = r.choice(['const', 'const', 'const', 'seq', 'pn', 'len', 'drop', 'stut', 'diff', 'binop', 'unop', 'clip'])
        if c == 'const':
            tl = r.choice([0, 1, 2, 4, 8, 3, 16])
            return {'t': 'const', 'p': sub(fin=fin), 'k': r.randint(4, 40), 'tl': tl}
        if c == 'seq':
            return {'t': 'seq', 'l': [sub(fin=True), I(r.randint(0, 9))], 'r': r.choice([1, 2] if fin else [1, INF]), 'o': r.randint(0, 1)}
        if c == 'pn':
            return {'t': 'pn', 'p': {'t': 'seq', 'l': [sub(fin=True), I(r.randint(1, 9))], 'r': 1, 'o': 0}, 'r': r.choice([1, 2] if fin else [2, INF])}
        if c == 'len':
            return {'t': 'len', 'p': sub(), 'k': r.randint(1, 7)}
        if c == 'drop':
            return {'t': 'drop', 'p': sub(fin=fin), 'k': r.randint(0, 3)}
        if c == 'stut':
            return {'t': 'stut', 'p': sub(fin=fin), 'n': I(r.randint(1, 3))}
        if c == 'diff':
            return {'t': 'diff', 'p': sub(fin=fin)}
        if c == 'binop':
            return {'t': 'binop', 'f': r.choice(['add', 'sub', 'min', 'max']), 'a': sub(fin=fin), 'b': sub() if r.random() < 0.5 else I(r.randint(0, 9))}
        if c == 'unop':
            return {'t': 'unop', 'f': r.choice(['neg', 'abs']), 'a': sub(fin=fin)}
        lo = r.randint(0, 5)
        return {'t': 'narop', 'f': 'clip', 'a': sub(fin=fin), 'b': I(lo), 'c': I(lo + r.randint(0, 9))}

    def lattice(self):
        """a linear expression, on the integers or on a dyadic lattice (float branch of the rounding in Pconst)"""
        r = self.r
        x = self.lin(r.randint(1, 3))
        if 'const' not in tags(x):
            x = {'t': 'const', 'p': x, 'k': r.randint(4, 40), 'tl': r.choice([1, 2, 4, 8, 3])}
        return x if r.random() < 0.3 else {'t': 'sc', 'q': r.choice([2, 8, 8, 16, 64]), 'p': x}

    def anyval(self, d):
        """a pattern that may yield lists / tuples"""
        r = self.r
        c = r.choice(['clump', 'clump2', 'tuple', 'seqmix', 'stut', 'len', 'pn'])
        if c == 'clump':
            return {'t': 'clump', 'p': self.num(d - 1), 'n': I(r.randint(1, 3)) if r.random() < 0.6 else
                    {'t': 'seq', 'l': [I(r.randint(0, 3)) for _ in range(3)], 'r': r.choice([1, 2, INF]), 'o': 0}}
        if c == 'clump2':
            return {'t': 'flat', 'p': {'t': 'clump', 'p': {'t': 'clump', 'p': self.num(max(0, d - 2)), 'n': I(r.randint(1, 3))},
                                       'n': I(r.randint(1, 2))}, 'n': I(r.randint(0, 2))}
        if c == 'tuple':
            l = [self.num(d - 1) if r.random() < 0.6 else I(r.randint(0, 4)) for _ in range(r.randint(1, 3))]
            if all(i['t'] == 'int' for i in l):
                return {'t': 'tuple', 'l': l, 'r': r.choice([1, 2, INF])}
            return {'t': 'tuple', 'l': l, 'r': r.choice([1, 2])}
        if c == 'seqmix':
            return {'t': 'seq', 'l': [self.num(d - 1, fin=True), {'t': 'lit', 'w': [1, 2]}, I(3)], 'r': r.choice([1, 2, INF]), 'o': r.randint(0, 2)}
        if c == 'stut':
            return {'t': 'stut', 'p': self.anyval(d - 1) if d > 1 else {'t': 'lit', 'w': [3]}, 'n': I(r.randint(1, 2))}
        if c == 'len':
            return {'t': 'len', 'p': self.anyval(d - 1) if d > 1 else {'t': 'lit', 'w': [3]}, 'k': r.randint(1, 6)}
        return {'t': 'pn', 'p': {'t': 'len', 'p': self.anyval(d - 1) if d > 1 else {'t': 'lit', 'w': [3]}, 'k': r.randint(1, 3)}, 'r': r.choice([2, INF])}

    def seeded(self):
        """Pseed-wrapped random patterns: one draw kind K per Pseed"""
        r = self.r
        k = r.randint(2, 4)

        def leaf(inf_ok=False):
            n = r.choice([1, 2, 3, 5] + ([INF] if inf_ok else []))
            if r.random() < 0.6:
                return {'t': 'rand', 'l': [I(r.randint(0, 9)) for _ in range(k)], 'r': n}
            return {'t': 'white', 'k': r.randint(-3, 5), 'o': k, 'r': n}

        def rout(inf_ok=True):      # routine-backed leaf
            return {'t': 'rout', 'k': r.randint(-3, 5), 'o': k, 'r': r.choice([1, 2, 3, 5] + ([INF] if inf_ok else []))}
        c = r.random()
        if c < 0.25:                # Pseed over a Prout: directly, under operators, under Pif, in sequence
            f = r.choice(['leaf', 'run', 'rbin', 'rbin', 'rif', 'rseq', 'rtuple'])
            other = lambda: r.choice([I(r.randint(0, 9)), rout(), leaf(True)])
            if f == 'leaf':
                body = rout()
            elif f == 'run':
                body = {'t': 'run', 'f': r.choice(['neg', 'inc']), 'a': rout()}
            elif f == 'rbin':
                a, b2 = rout(), other()
                if r.random() < 0.4:
                    a, b2 = b2, a
                body = {'t': 'rbin', 'f': r.choice(['add', 'sub', 'mul']), 'a': a, 'b': b2}
            elif f == 'rif':
                cond = {'t': 'seq', 'l': [I(r.randint(0, 1)) for _ in range(r.randint(2, 4))], 'r': r.choice([1, 2, INF]), 'o': 0}
                body = {'t': 'rif', 'a': cond, 'b': rout(), 'c': other()}
            elif f == 'rseq':
                body = {'t': 'rseq', 'l': [rout(False), leaf()], 'r': r.choice([1, 2])}
            else:
                body = {'t': 'rtuple', 'a': rout(), 'b': r.choice([rout(), leaf(True)])}
            sd = I(r.randint(0, 99)) if r.random() < 0.5 else \
                {'t': 'seq', 'l': [I(r.randint(0, 99)) for _ in range(r.randint(1, 3))], 'r': 1, 'o': 0}
            p = {'t': 'seed', 'a': sd, 'p': body, 'tp': [], 'pm': []}
            return p if r.random() < 0.6 else {'t': 'seq', 'l': [p, I(7), p], 'r': 1, 'o': 0}
        if c < 0.12:
            sd = I(r.randint(0, 99)) if r.random() < 0.5 else \
                {'t': 'seq', 'l': [I(r.randint(0, 99)) for _ in range(r.randint(1, 3))], 'r': 1, 'o': 0}
            p = {'t': 'seed', 'a': sd, 'p': {'t': 'shuf', 'l': [I(v) for v in r.sample(range(10), r.randint(2, 5))],
                                               'r': r.choice([1, 2, INF])}, 'tp': [], 'pm': []}
            return p if r.random() < 0.6 else {'t': 'seq', 'l': [p, I(7)], 'r': 2, 'o': 0}
        if c < 0.3:
            body = leaf(True)
        elif c < 0.6:
            body = {'t': 'rseq', 'l': [leaf() for _ in range(r.randint(1, 3))], 'r': r.choice([1, 2, INF])}
        elif c < 0.8:
            body = {'t': 'rtuple', 'a': leaf(True), 'b': leaf(True)}
        else:
            body = {'t': 'rbin', 'f': r.choice(['add', 'sub', 'mul']), 'a': leaf(True), 'b': leaf(True)}
        sd = I(r.randint(0, 99)) if r.random() < 0.5 else \
            {'t': 'seq', 'l': [I(r.randint(0, 99)) for _ in range(r.randint(1, 3))], 'r': 1, 'o': 0}
        p = {'t': 'seed', 'a': sd, 'p': body, 'tp': [], 'pm': []}
        c = r.random()
        if c < 0.4:
            return p
        if c < 0.6:
            return {'t': 'seq', 'l': [p, I(7), p], 'r': r.choice([1, 2]), 'o': 0}
        if c < 0.8 and body['t'] != 'rtuple':
            return {'t': 'binop', 'f': 'add', 'a': p, 'b': self.num(1)}
        return {'t': 'len', 'p': {'t': 'stut', 'p': p, 'n': I(2)}, 'k': r.randint(1, 9)}


# ------------------------------------------------------------------ running and judging
def run_cases(ctx, cases, n):
    """cases: list of dict(id, x, sched). returns traces in id order"""
    if not cases:
        return []
    per = max(1, (len(cases) + 15) // 16)
    inputs = [dict(N=n, timeout=2.0, cases=cases[i:i + per]) for i in range(0, len(cases), per)]
    outs = ctx.run_drivers(DRIVER, inputs)
    traces = [t for o in outs for t in o['traces']]
    if len(traces) != len(cases):
        raise MachineryError('driver returned %d traces for %d cases' % (len(traces), len(cases)))
    # a watchdog timeout may be the machine's load rather than the code: such cases are repeated alone with a
    # generous limit; only a case that still does not finish is recorded as not terminating
    late = [t['id'] for t in traces if any(e['r']['k'] == 'timeout' for e in t['ev'])]
    if late:
        byid = {c['id']: c for c in cases}
        again = {}
        for i in late[:3]:
            o = ctx.run_driver(DRIVER, dict(N=n, timeout=60.0, cases=[byid[i]]))
            again[i] = o['traces'][0]
        if late[3:] and len(late) <= 20 and not any(e['r']['k'] == 'timeout' for t in again.values() for e in t['ev']):   # it was the load
            o = ctx.run_driver(DRIVER, dict(N=n, timeout=60.0, cases=[byid[i] for i in late[3:]]), timeout=3600)
            again.update({t['id']: t for t in o['traces']})
        traces = [again.get(t['id'], t) for t in traces]
        ctx.cov['cases_repeated_after_watchdog'] = ctx.cov.get('cases_repeated_after_watchdog', 0) + len(again)
    return traces


def judge(ctx, traces, source, bad_tags, may_skip=()):
    """may_skip: ids of randomly generated cases; if the oracle does not define such an expression (it would never
    yield its next value, or needs more look-ahead than the horizon) there is no verdict: counted as skipped"""
    verdicts = ctx.validate('TracePattern', 'TracePattern.cfg', traces, env=JVM, timeout=1500)
    nrej = 0
    skipped = 0
    for t in sorted(traces, key=lambda t: depth(t['x'])):
        v = verdicts[t['id']]
        x = t['x']
        if depth(x) >= 2 or any(e['r']['k'] in ('seqstop', 'stop') for e in t['ev']):
            ctx.nontrivial([show(x), [e['op'] for e in t['ev']]])
        if v is None:
            continue
        at, why = v
        if why == 'undefined' and t['id'] in may_skip:
            skipped += 1
            continue
        if why in MACHINERY_WHYS:
            raise MachineryError('trace %s (%s) outside the oracle: %s at event %d: %s'
                                 % (t['id'], source, why, at, show(x)))
        nrej += 1
        ts = [g for g in tags(x) if g != 'sc']
        # attribute to a class already seen failing on its own (depth 1), else to the root class
        culprit = next((g for g in ts if g in bad_tags), ts[0])
        if depth(x) <= 2 and culprit == ts[0]:
            bad_tags.add(ts[0])
        e = t['ev'][at - 1]
        # classification only: did this stream already signal its end before the rejected call?
        ended = False
        for e2 in t['ev'][:at - 1]:
            if e2['s'] == e['s'] and e['op'] != 'list':
                if e2['op'] in ('new', 'reset'):
                    ended = False
                elif e2['r']['k'] in ('stop', 'seqstop') or e2['op'] == 'all':
                    ended = True
        sigwhy = 'after-end' if (ended and not why.startswith(('raises', 'Immutable'))) else \
            why if why.startswith('raises') else why.split(':')[0]
        ctx.violation('pattern:%s:%s' % (culprit, sigwhy),
                      '%s: real stream disagrees with the documented sequence (%s) at call %d (%s on stream %d): observed %s'
                      % (show(x), why, at, e['op'], e['s'], json.dumps(e['r'])[:200]),
                      dict(kind='expr', x=x, n=t['n'], sched=[[e['op'], e['s'], e['n']] for e in t['ev']],
                           sched_full=t.get('sched'), rejected_at=at, why=why, observed=t['ev'][:at]))
    if skipped * 20 > max(len(may_skip), 1):
        raise MachineryError('%d of %d random expressions are outside the oracle: generator too loose' % (skipped, len(may_skip)))
    ctx.cov['random_expressions_without_verdict'] = ctx.cov.get('random_expressions_without_verdict', 0) + skipped
    return nrej


def mc(ctx, cfg, sub, label, env, timeout, workers=None):
    """one TLC run of PatternModel in its own work directory (several run concurrently); any violation in a
    design-level run is a machinery error, never a verdict on the code"""
    from harness import tlc
    wd = os.path.join(ctx.work, 'mc_' + sub)
    r = tlc.run('PatternModel', cfg, wd, workers=workers or max(2, (os.cpu_count() or 4) // 2), timeout=timeout, env=dict(JVM, **env))
    ctx.cov['model_runs'].append(dict(module='PatternModel', cfg=cfg, label=label, **r.summary()))
    ctx.cov['states'] += r.distinct
    ctx.cov['transitions'] += r.generated
    if not r.ok:
        raise MachineryError('%s: model run failed: violated=%s deadlock=%s\n%s' % (label, r.violated, r.deadlock, r.output[-3000:]))
    return r


def require_marks(r, names):
    """vacuity guard: PatternModel prints <<"ACT", name>> the first time a worker completes an action
    (TLC's -coverage is unusable on the recursive denotation: start-up never finishes)"""
    for a in names:
        if '<<"ACT", "%s">>' % a not in r.output:
            raise MachineryError('vacuity: action %s never taken' % a)


def simulated_cases(ctx, num, n, first_id):
    """S->C with TLC-chosen interleavings: behaviours of the stream machine (PatternModel, streams config) turned
    into schedules for the real streams.  Which stream an action touched is the model's variable `who`."""
    from harness import tlc
    behs, r = tlc.simulate_behaviours('PatternModel', 'PatternModel_streams.cfg', ctx.work, num=num, depth=16,
                                      seed=ctx.seed + 1, env=JVM, timeout=600)
    ctx.cov['transitions'] += r.generated
    cases = []
    cur = None
    for b in behs:
        prev = None
        for act, st in b:
            if act == 'Pick':
                cur = dict(id=first_id + len(cases), x=st['p'], sched=[])
                cases.append(cur)
            elif act != 'Init' and cur is not None and prev is not None:
                i = st['who']
                rv = st['ret']
                if act == 'New':
                    cur['sched'].append(['new', i, ['stream', 'iter', 'embed'][(len(cases) + i) % 3]])
                elif act == 'NextVal':
                    cur['sched'].append(['next', i, 0])
                elif act == 'TakeN':
                    cur['sched'].append(['take', i, len(rv['v']) + (1 if rv['k'] == 'seqstop' else 0)])
                elif act == 'AllOf':
                    cur['sched'].append(['all', i, 0])
                elif act == 'Reset':
                    cur['sched'].append(['reset', i, 0])
            prev = st
    # a stream made by iter()/embed() has no reset()/all(): use the stream API for those
    for c in cases:
        needs = {s for op, s, _ in c['sched'] if op in ('reset', 'all')}
        c['sched'] = [[op, s, 'stream' if (op == 'new' and s in needs) else a] for op, s, a in c['sched']]
    return [c for c in cases if c['sched']], 5


def load_export(path):
    out = []
    with open(path) as f:
        for line in f:
            line = line.strip()
            if line:
                out.append(json.loads(line))
    return out


def run(ctx):
    import time
    thorough = not ctx.quick
    n = 12
    t0 = time.time()
    phase = ctx.cov.setdefault('phase_s', {})
    rnd = random.Random(ctx.seed)
    bad_tags = set()

    # 1. design: enumerate expressions, check the laws of the denotation, export; stream machine.
    #    The laws run and the stream-machine run proceed in the background while the exported expressions
    #    are already executed on the real code and validated.
    from concurrent.futures import ThreadPoolExecutor
    exp_path = os.path.join(ctx.work, 'exprs.ndjson')
    sfx = 'thorough' if thorough else 'quick'
    pool = ThreadPoolExecutor(max_workers=2)
    f_laws = pool.submit(mc, ctx, 'PatternModel_%s.cfg' % sfx, 'laws', 'enumeration + laws', {}, 3000)
    f_strm = pool.submit(mc, ctx, 'PatternModel_streams.cfg', 'streams', 'stream machine', {}, 1200, 4)
    r = mc(ctx, 'PatternModel_%s_export.cfg' % sfx, 'export', 'enumeration export', dict(VERIF_EXPORT=exp_path), 1200, 2)
    require_marks(r, ('Pick',))
    phase['export'] = round(time.time() - t0, 1)
    exprs = load_export(exp_path)
    os.unlink(exp_path)
    if len(exprs) < 1000:
        raise MachineryError('enumeration exported only %d expressions' % len(exprs))
    ctx.cov['enumerated_expressions'] = len(exprs)

    # 2. S->C / C->S: every enumerated expression on the real classes
    cases = [dict(id=i, x=x, sched=schedule(rnd, n)) for i, x in enumerate(exprs)]
    # 3. seeded random deeper expressions and Pseed-wrapped random patterns
    g = Gen(rnd)
    nrand = 12000 if thorough else 1500
    first_random = len(cases)
    for _ in range(nrand):
        c = rnd.random()
        x = g.seeded() if c < 0.2 else g.anyval(rnd.randint(1, 3)) if c < 0.35 else g.lattice() if c < 0.5 else g.num(rnd.randint(2, 4))
        cases.append(dict(id=len(cases), x=x, sched=schedule(rnd, n)))
    t1 = time.time()
    traces = run_cases(ctx, cases, n)
    # S->C with TLC-chosen interleavings (the stream machine's own behaviours; its NV is 5)
    sim, nsim = simulated_cases(ctx, 1500 if thorough else 150, n, len(cases))
    straces = run_cases(ctx, sim, nsim)
    for t, c in zip(straces, sim):
        t['sched'] = c['sched']
    ctx.cov['spec_behaviours_replayed'] = len(sim)
    phase['drivers'] = round(time.time() - t1, 1)
    for t, c in zip(traces, cases):
        t['sched'] = c['sched']
    t1 = time.time()
    ctx.cov['evaluations'] += len(traces) + len(straces)
    judge(ctx, traces + straces, 'enumerated+random+simulated', bad_tags, may_skip=set(range(first_random, len(cases))))
    phase['validation'] = round(time.time() - t1, 1)
    t1 = time.time()
    r = f_laws.result()
    require_marks(r, ('Pick',))
    if r.distinct < len(exprs) * 0.9:      # (the quick laws run uses a shorter N, its set of defined expressions differs slightly)
        raise MachineryError('laws run visited %d states for %d expressions' % (r.distinct, len(exprs)))
    r = f_strm.result()
    require_marks(r, ('Pick', 'New', 'NextVal', 'TakeN', 'AllOf', 'Reset'))
    phase['waiting_for_model_runs'] = round(time.time() - t1, 1)
    deep = [t for t in traces if depth(t['x']) >= 2 and len(t['ev']) > 1]
    for t in deep[len(deep) // 3:len(deep) // 3 + 2] + [t for t in deep if 'seed' in tags(t['x'])][:1] + deep[-1:]:
        ctx.sample(dict(pattern=show(t['x']), first_take=[v for v in t['ev'][1]['r']['v']][:6] if len(t['ev']) > 1 else []))
    ctx.cov['rule'] = ('every expression of the TLC enumeration (depth <= 2%s; %d expressions the oracle defines) plus %d seeded '
                       'random expressions of depth 2-5 incl. Pseed-wrapped random patterns; each run with 4-5 streams '
                       '(stream.next(inval), iterator protocol, embedding generator) in a random interleaving, reset, '
                       'list()/all() when finite; non-trivial = depth >= 2 or the end of the stream was observed; distinct by content'
                       % (' + depth-3 slice' if thorough else '', len(exprs), nrand))
    ctx.cov['exhaustive'] = True
    ctx.assumptions += ['values are integers (exact arithmetic); lists/tuples of integers',
                        'CPython random.Random is the generator behind Pseed (its draws are the tape given to the spec)',
                        'the denotation is written from the SuperCollider class documentation with sc3 argument order; '
                        'Pflatten(n) removes n list levels (sc3 numbering); Pseq/Place offsets are taken within -1..len-1']


def replay(ctx, rp):
    q = rp['replay']
    sched = q.get('sched_full') or q['sched']
    traces = run_cases(ctx, [dict(id=0, x=q['x'], sched=sched)], q.get('n', 12))
    ctx.cov['evaluations'] = 1
    nrej = judge(ctx, traces, 'replay', set())
    ctx.sample(dict(pattern=show(q['x']), rejected=bool(nrej), observed=[e['r'] for e in traces[0]['ev'][:4]]))


MANIFEST = dict(
    category='model_checking',
    text=('Pattern.tla defines the denotation of pattern expressions (first N values of the documented sequence, by '
          'structural recursion with explicit embedding / as-stream readings of operands) for Pseq, Pser, Pn, Plen, Pdrop, '
          'Pstutter, Pclump, Pflatten, Pdiff, Pconst, Pswitch, Pswitch1, Place, Ptuple, Pslide, Pseries, Pgeom, '
          'Pcollect/Pselect/Preject, Pif, Pwrap, unary/binary/n-ary operator patterns and Pseed over Prand/Pwhite (draws '
          'as an uninterpreted tape). TLC enumerates every expression of depth <= 2 over small leaves/parameters '
          '(thorough: all depth-1 operands + a depth-3 slice), checks laws of the denotation on each, model-checks the '
          'stream machine (any interleaving of streams of one pattern yields the denotation), and every enumerated '
          'expression plus seeded random deeper ones is built as a real sc3 pattern, run through several interleaved '
          'streams with state snapshots, and validated by TLC against the denotation.'),
    note=('Decided for integer-valued expressions within the enumerated/generated classes and N = 12 observed values; '
          'not decided: distribution of random patterns (only seed-determinism and draw order of Prand/Pwhite under Pseed), '
          'float values off a dyadic lattice (Pconst tolerances are decided on integers and dyadic lattices), Pseq/Place offsets >= len, arithmetic on list values, expressions that never '
          'yield (excluded). Trusted: TLC, CPython generators/random, the driver that builds objects and records.'),
    technique='TLA+ denotational oracle evaluated by TLC on enumerated and random pattern expressions + batch trace validation of real sc3 streams',
    design_ref='DESIGN.md section 3 / C13',
    engine='Pattern',
)
