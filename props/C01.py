"""C01 - SynthDef compilation preserves the meaning of the graph function.

Decided by: SynthGraph.tla (programs, Z_p denotation, server opcode table, class table, Implements),
SynthGraphGen.tla (design model + enumeration of programs per vocabulary slice), TraceSynthGraph.tla
(validation of every recorded build).  S->C: TLC enumerates / simulates programs, the driver builds each one
with the real constructors and operators.  C->S: the decoded bytes + certificate go back to TLC."""
import json
import random
import re
from concurrent.futures import ThreadPoolExecutor

from harness import synthprog as sp
from harness.common import MachineryError

ALL_ACTIONS = ('AddUn', 'AddBin', 'AddMAdd', 'AddSum', 'AddGen', 'Finish')      # (Finish2: slice twoS, checked by count)


def signature(why, rec):
    """class of the failure: the first failing clause of the spec (it names the unit class / input), and for
    a refused build the exception type and its message with the operands blanked"""
    if why.startswith('must-compile'):
        msg = re.sub(r"\(.*", '', rec['msg'])
        msg = re.sub(r'[0-9]+', 'N', msg).strip()[:48]
        return 'compile:%s:%s' % (rec['err'], msg)
    return 'implements:%s' % why


def judge(ctx, recs, origin):
    traces = [sp.c01_trace(r) for r in recs]
    verdicts = ctx.validate('TraceSynthGraph', 'TraceSynthGraph.cfg', traces, timeout=1500,
                            env={'JAVA_TOOL_OPTIONS': sp.JVM_OPTS})
    bad = 0
    for r in recs:
        prog = r['prog']
        if sp.nontrivial(prog):
            ctx.nontrivial(prog)
        v = verdicts[r['id']]
        if v is None:
            continue
        why = v[1]
        if why == 'undecidable-program':
            raise MachineryError('generator produced a program outside the decidable fragment: %s' % prog)
        bad += 1
        ctx.violation(signature(why, r),
                      '%s program: %s (%s%s)' % (origin, why, r['err'], (': ' + r['msg']) if r['msg'] else ''),
                      dict(kind='program', prog=prog, why=why, raised=r['raised'], err=r['err'], msg=r['msg'],
                           m=r['m'], units=[[u['c'], u['r'], u['sp'], u['ins']] for d in r['parsed']['defs']
                                            for u in d['units']]))
    return bad


def run(ctx):
    thorough = not ctx.quick
    group = 'thorough' if thorough else 'quick'
    jobs = [
        # 1b. L2: every stage of the transcribed optimiser (after construction, after each unit's optimisation,
        #     after the sort) implements the program (invariant OptOK of SynthOpt.tla)
        lambda: sp.tlc_programs(ctx, 'quick' if thorough else 'l2S', timeout=3000, workers=6 if thorough else 3,
                                module='SynthOpt', label='optimiser model: every rewrite preserves the denotation'),
        # 2. S->C: every program of every slice of the tier (same invariants checked on all of them)
        #    vacuity guard: every generator action must have produced programs (the generator records the actions
        #    it took in its state and prints them; invariants NaiveOK / DropDetected checked on every state)
        lambda: sp.tlc_programs(ctx, group, timeout=3000, workers=10, label='all programs of group ' + group,
                                cover=ALL_ACTIONS + ('AddList', 'Finish2', 'FinishAll')),
    ]
    # 3. longer programs and the slices too big to enumerate: random walks of the same generator (several seeds)
    nlong = 4 if thorough else 1
    for k in range(nlong):
        jobs.append(lambda k=k: sp.tlc_programs(ctx, 'long', simulate='num=%d' % (900 if thorough else 120), depth=30,
                                                seed=ctx.seed + 70 + k, timeout=1500, label='simulated long programs %d' % k,
                                                tag='l%d' % k))
    for k in range(3 if thorough else 1):
        jobs.append(lambda k=k: sp.tlc_programs(ctx, 'sampled', simulate='num=%d' % (8000 if thorough else 200), depth=10,
                                                seed=ctx.seed + 80 + k, timeout=1500,
                                                label='random walks of the big slices %d' % k, tag='s%d' % k))
    with ThreadPoolExecutor(max_workers=len(jobs)) as ex:
        res = [f.result() for f in [ex.submit(j) for j in jobs]]
    progs = list(res[1])
    nexh = len(progs)
    if not any(p['name'] == 'twoS' for p in progs):
        raise MachineryError('vacuity: no program with two output units (Finish2) was generated')
    seen = set(json.dumps(p, sort_keys=True) for p in progs)
    longp = []
    for extra in res[2:]:
        for p in extra:
            k = json.dumps(p, sort_keys=True)
            if k not in seen:
                seen.add(k)
                longp.append(p)
    progs += longp
    per_slice = {}
    for i, p in enumerate(progs):
        per_slice[p['name']] = per_slice.get(p['name'], 0) + 1
        p['name'] = '%s_%d' % (p['name'], i)
    recs = sp.run_builds(ctx, progs)
    judge(ctx, recs, 'generated')
    # 4. L2 binding: SynthOpt.tla (builder + optimiser transcribed; TLC checked above that each of its rewrites
    #    preserves the denotation) must PREDICT the emitted definition exactly; a difference is model drift
    sample = recs if thorough else recs[::6]
    vd = ctx.validate('TraceSynthOpt', 'TraceSynthOpt.cfg', [sp.c01_trace(r_) for r_ in sample], timeout=3000,
                      env={'JAVA_TOOL_OPTIONS': sp.JVM_OPTS, 'VERIF_SLICE': 'coverS'})
    ndrift = 0
    for r_ in sample:
        v = vd[r_['id']]
        if v is not None:
            ndrift += 1
            ctx.note_drift('%s on program %s' % (v[1], [(i['op'], i['cls'] or i['sel']) for i in r_['prog']['ins']]))
    ctx.cov['l2_predictions'] = dict(compared=len(sample), exact=len(sample) - ndrift, drift=ndrift)
    for r_ in (recs[nexh // 2], recs[nexh + len(longp) // 2]):
        ctx.sample(dict(program=r_['prog'], raised=r_['raised'],
                        emitted=[[u['c'], u['r'], u['sp'], u['ins']] for d in r_['parsed']['defs'] for u in d['units']],
                        certificate=r_['m']))
    ctx.cov['evaluations'] = len(progs)
    ctx.cov['programs_per_slice'] = per_slice
    ctx.cov['exhaustive'] = True
    ctx.cov['rule'] = ('every program of each vocabulary slice in group %r of SynthGraphGen.tla (prelude units + <= n '
                       'enumerated instructions + output unit) plus %d simulated programs of up to 12 instructions over the '
                       'big vocabulary; non-trivial = has a shared operand, a madd/sum, a neutral/absorbing constant or an '
                       'arithmetic instruction fed by another one (something the optimiser can rewrite)' % (group, len(longp)))
    ctx.assumptions += [
        'values are compared in Z_10007 under 6 pseudo-random environments: inequivalent wirings are missed with probability ~deg/p per environment',
        'operators other than + - * / neg are uninterpreted functions of (server opcode index, operands); their server-side meaning is not checked',
        'constants are small integers (exact in float32); non-integer constants and demand rate are outside the fragment',
        'the certificate (source unit -> emitted unit) is read from object identity in the driver and verified by TLC',
    ]


def replay(ctx, rp):
    prog = rp['replay']['prog']
    recs = sp.run_builds(ctx, [prog], nproc=1)
    ctx.cov['evaluations'] = 1
    ctx.sample(dict(program=prog, raised=recs[0]['raised'], err=recs[0]['err']))
    judge(ctx, recs, 'replayed')


MANIFEST = dict(
    category='model_checking',
    text=("Graph functions are abstracted as programs (unit constructors, unary/binary operators, madd, sum, constants, controls, shared results). SynthGraph.tla gives every expression a value in the field Z_10007 (+ - * / neg are field operations, every other operator is an uninterpreted function of its server opcode index, taken from the spec's own transcription of Opcodes.h) and defines Implements(prog, def, m). TLC (a) checks on every enumerated program that a reference compilation satisfies the relation and that dropping a side-effecting unit violates it, (b) enumerates all programs of 13 vocabulary slices (quick ~6k, thorough ~10^5 programs) and random walks of up to 12 instructions over a large vocabulary, which the driver builds with the real constructors/operators, and (c) decides for every decoded definition + certificate whether it implements its program: side-effecting units exactly once, class/rate/arity, every input equal to the source expression in 6 environments, only operator/silence/control units extra, operator rate = max input rate, well-formed programs compile."),
    note=('Not decided: float (non-integer) constants, demand rate, server-side meaning of uninterpreted opcodes, programs outside the decidable fragment (operators applied to plain numbers). Equality is probabilistic (Schwartz-Zippel over Z_p, 6 environments). Trusted: TLC, harness/scgf.py (independent SCgf reader), the driver table that says how each operator is written in Python. The optimiser itself is not transcribed (L2 growth stage): the relation is checked on its output.'),
    technique='TLA+ denotational spec (Z_p evaluation, opcode table, certificate-checked Implements relation) evaluated by TLC on '
              'every build of TLC-enumerated programs',
    design_ref='DESIGN.md section 3 / C01',
    engine='SynthGraph',
)
