"""C08 - real-time clocks wake every task once, on time, in order, and survive errors.

Decided by: ClockL1.tla (monitor: pending schedulings as a stable time-ordered queue, exact tempo
arithmetic, NoMissedHead, NeverEarly, Order, ExactlyOnce, logical time, error isolation) evaluated by
TLC on every execution of the REAL SystemClock/AppClock/TempoClock recorded under the controlled
scheduler (harness/cosched.py: seeded random, PCT priorities and bounded DFS over schedules, timer
lateness); ClockRT.tla / AppClockRT.tla: lock-granularity protocol models checked exhaustively."""
import random

from harness.common import MachineryError

DRIVER = 'drivers/c08_clock.py'
U = 1024
DELTAS = [0, 128, 128, 256, 256, 512, 1024, 2048, -128]      # a negative delay = already due (calls from threads only)
DELTAS_POS = [d for d in DELTAS if d >= 0]     # returned deltas and calls from inside tasks: AppClock wakes a whole
                                               # batch before looking at what the batch scheduled (documented), so an
                                               # entry put into the past from inside it cannot come out in time order


def gen_program(rnd, pid, small=False):
    tempo = {}
    if rnd.random() < 0.6:
        tempo['t1'] = rnd.choice([[1, 2], [1, 1], [2, 1], [4, 1]])
    if rnd.random() < 0.2 and not small:
        tempo['t2'] = rnd.choice([[1, 1], [2, 1]])
    clocks = ['sys', 'sys', 'app'] + list(tempo) * 2
    ntasks = rnd.randint(2, 3 if small else 7)
    names = ['k%d' % i for i in range(ntasks)]
    tclock = {n: rnd.choice(clocks) for n in names}     # the clock each task lives on
    nthreads = rnd.randint(1, 2 if small else 3)
    # the tempo setter is not a critical section: each tempo clock has ONE source of tempo changes,
    # either one user thread or the tasks running on that clock itself (see DESIGN C08)
    owner = {c: rnd.choice(['own', rnd.randrange(nthreads)]) for c in tempo}
    free = list(names)
    rnd.shuffle(free)
    tasks = {}
    TEMPI = [[1, 2], [1, 1], [2, 1], [4, 1]]

    def res():
        x = rnd.random()
        if x < 0.45:
            return ['ret', rnd.choice(DELTAS_POS)]
        if x < 0.65:
            return ['none']
        if x < 0.8:
            return ['raise']
        if x < 0.9:
            return ['stop']
        return ['other']

    def inner_ops(me):
        ops = []
        if free and rnd.random() < 0.25:
            t = free.pop()
            ops.append(['sched', tclock[t], t, rnd.choice(DELTAS_POS)])
        if rnd.random() < 0.04:
            ops.append(['clear', rnd.choice(clocks)])
        c = tclock[me]
        if c in tempo and owner[c] == 'own' and rnd.random() < 0.25:
            ops.append(['tempo', c, *rnd.choice(TEMPI)])
        return ops

    ntop = max(1, len(free) - rnd.randint(0, 2))
    top = [free.pop() for _ in range(min(ntop, len(free)))]
    for n in names:
        k = rnd.randint(1, 2 if small else 4)
        tasks[n] = dict(kind=rnd.choice(['fn', 'rt']), script=[dict(do=[], res=res()) for _ in range(k)])
    for n in names:
        for stp in tasks[n]['script']:
            stp['do'] = inner_ops(n)
    threads = [[] for _ in range(nthreads)]
    for t in top:
        th = rnd.choice(threads)
        if rnd.random() < 0.5:
            th.append(['sleep', rnd.choice([1, 128, 256, 300, 1024])])
        c = tclock[t]
        if c != 'app' and rnd.random() < 0.2:
            th.append(['sched_abs', c, t, rnd.choice([0, 256, 512, 1024, 4096])])
        else:
            th.append(['sched', c, t, rnd.choice(DELTAS)])
    for n in names:
        if n not in top and tasks[n]['kind'] == 'fn' and rnd.random() < 0.15 and not any(
                op[0] == 'sched' and op[2] == n for t2 in tasks.values() for stp in t2['script'] for op in stp['do']):
            rnd.choice(threads).append(['sched', tclock[n], n, 'inf'])       # never runs
    for t in top:
        # (only plain functions: a finished routine that is scheduled again is awakened without running its body,
        # which the task wrappers cannot observe)
        if tasks[t]['kind'] == 'fn' and rnd.random() < 0.35:
            # schedule the same task object again (sched on a pending task moves its entry, see C09)
            th = rnd.choice(threads)
            if rnd.random() < 0.6:
                th.append(['sleep', rnd.choice([1, 128, 256, 512])])
            th.append(['sched', tclock[t], t, rnd.choice(DELTAS)])
    if rnd.random() < 0.12 and len(top) >= 2:
        # motif: two tasks due at the same instant on one clock, the first one clears that clock
        x, y = top[0], top[1]
        c = tclock[x]
        tclock[y] = c
        d = rnd.choice(DELTAS)
        for th in threads:
            th[:] = [op for op in th if not (op[0] in ('sched', 'sched_abs') and op[2] in (x, y))]
        threads[0] += [['sched', c, x, d], ['sched', c, y, d]]
        tasks[x]['script'][0]['do'] = [['clear', c]]
    if tempo and rnd.random() < 0.2 and len(top) >= 2:
        # motif: a task slows its tempo clock down and then returns / raises / stops, while another task of the same
        # clock is due shortly after it (with a late wake-up both look due in one pass)
        c = rnd.choice(list(tempo))
        tempo[c] = rnd.choice([[2, 1], [4, 1]])
        x, y = top[0], top[1]
        tclock[x] = tclock[y] = c
        b = rnd.choice([256, 512, 1024])
        for th in threads:
            th[:] = [op for op in th if not (op[0] in ('sched', 'sched_abs') and op[2] in (x, y))]
        threads[0] += [['sched', c, x, b], ['sched', c, y, b + rnd.choice([128, 256, 512])]]
        tasks[x]['script'][0] = dict(do=[['tempo', c, *rnd.choice([[1, 2], [1, 1]])]],
                                     res=rnd.choice([['ret', 256], ['raise'], ['stop'], ['none'], ['other']]))
    if rnd.random() < 0.08 and not small:
        # motif: a watchdog that is pushed back over and over while other tasks wait (many cancelled entries in the
        # clock's queue), with a later-due task scheduled before an earlier-due one
        c = rnd.choice(['sys', 'sys', 'app'])
        far, mid, near = rnd.choice([(2048, 1536, 1024), (1408, 1024, 640), (3072, 2048, 512)])
        for nm in ('wb', 'ww', 'wa'):
            tasks[nm] = dict(kind='fn', script=[dict(do=[], res=rnd.choice([['none'], ['ret', 256]])), dict(do=[], res=['none'])])
            tclock[nm] = c
        th = rnd.choice(threads)
        # the watchdog is the earliest entry (its cancelled entry stays at the head of the queue), the later-due task is
        # scheduled before the earlier-due one
        th += [['sched', c, 'wb', far], ['sched', c, 'ww', near], ['sched', c, 'wa', mid]]
        for k in range(rnd.randint(17, 26)):
            if rnd.random() < 0.15:
                th.append(['sleep', rnd.choice([1, 2])])
            th.append(['sched', c, 'ww', far + 256 + 8 * k])
    own = [c for c in tempo if owner[c] == 'own']
    if own and rnd.random() < 0.15:
        # motif: a routine that is pending on a tempo clock (so that clock is "its" clock) is awakened by SystemClock's
        # thread first and speeds the tempo clock up there, while another task waits on the tempo clock
        c = rnd.choice(own)
        tasks['xr'] = dict(kind='rt', script=[dict(do=[['tempo', c, *rnd.choice([[4, 1], [8, 1]])]], res=['other']),
                                              dict(do=[], res=rnd.choice([['none'], ['stop']]))])
        tasks['xw'] = dict(kind='fn', script=[dict(do=[], res=['none'])])
        tclock['xr'] = tclock['xw'] = c
        d = rnd.choice([128, 256, 512])
        threads[0] += [['sched', 'sys', 'xr', d], ['sched', c, 'xr', 4096], ['sched', c, 'xw', rnd.choice([2048, 3072])]]
    oscn = 0
    for i, th in enumerate(threads):
        if i > 0 and rnd.random() < 0.3:        # the OSC receive thread: incoming datagrams are dispatched via SystemClock
            for _ in range(rnd.randint(1, 2)):
                oscn += 1
                th.insert(rnd.randint(0, len(th)), ['osc', 'sys', '/osc%d' % oscn])
        for c in tempo:
            if rnd.random() < 0.06:
                th.append(['sleep', rnd.choice([128, 1024, 2048])])
                th.append(['stop', c])
        if rnd.random() < 0.08:
            th.insert(rnd.randint(0, len(th)), ['clear', rnd.choice(clocks)])
        for c in tempo:
            if owner[c] == i and rnd.random() < 0.6:
                th.insert(rnd.randint(0, len(th)), ['tempo', c, *rnd.choice(TEMPI)])
                if rnd.random() < 0.3:
                    th.insert(rnd.randint(0, len(th)), ['sleep', rnd.choice([128, 512, 1024])])
    # qpoints: preemption points inside the TaskQueue methods (after every heap operation)
    return dict(id=pid, tempo=tempo, tasks=tasks, threads=threads, horizon=40 * U, qpoints=rnd.random() < 0.35)


def nontrivial(tr):
    """a schedule in which some scheduling call was linearized while the target clock's thread was asleep
    (so it had to be woken or re-timed), or a task raised"""
    asleep = set()
    hit = False
    c2t = {v: k for k, v in tr['clockthread'].items()}
    for e in tr['ev']:
        if e['op'] == 'wait' and e['th'] in tr['clockthread']:
            asleep.add(e['th'])
        elif e['op'] == 'wake':
            asleep.discard(e['th'])
        elif e['op'] == 'call' and e['api'] in ('sched', 'sched_abs', 'tempo') and c2t.get(e['clock']) in asleep:
            hit = True
        elif e['op'] == 'task_end' and e['res'] == 'raise':
            hit = True
    return hit


def run_batches(ctx, progs, nproc=16):
    """run programs in fresh RT processes (batches); a broken execution ends its process early"""
    traces = []
    per = max(1, (len(progs) + nproc - 1) // nproc)
    todo = [progs[i:i + per] for i in range(0, len(progs), per)]
    while todo:
        outs = ctx.run_drivers(DRIVER, [dict(programs=b) for b in todo], nproc=nproc, timeout=3600)
        nxt = []
        for b, o in zip(todo, outs):
            traces += o['traces']
            if o['remaining']:
                rem = set(o['remaining'])
                nxt.append([p for p in b if p['id'] in rem])
        todo = nxt
    return traces


def classify(tr, at, why):
    ev = tr['ev'][at - 1]
    clock = ev.get('clock') or tr['clockthread'].get(ev['th'], '')
    kind = 'tempo' if clock not in ('sys', 'app', '') else clock
    return 'clock:%s:%s' % (kind, why)


def run(ctx):
    thorough = not ctx.quick
    # 1. protocol models (design level)
    design(ctx)
    replay_protocol(ctx)
    # 2. executions of the real clocks under the controlled scheduler, validated by the L1 monitor
    rnd = random.Random(ctx.seed)
    progs = []
    nprog = 2500 if thorough else 220
    pid = 0
    for i in range(nprog):
        p = gen_program(rnd, pid)
        kind = rnd.choice(['random', 'random', 'random', 'pct'])
        p['strategy'] = dict(kind=kind, seed=rnd.randrange(1 << 30), p_stay=rnd.choice([0.0, 0.5, 0.8]))
        progs.append(p)
        pid += 1
    # bounded DFS over all schedules of tiny programs
    ndfs = 60 if thorough else 12
    for i in range(ndfs):
        pid = (pid // 1000 + 1) * 1000
        p = gen_program(rnd, pid, small=True)
        p['strategy'] = dict(kind='dfs', max=400 if thorough else 120, depth=14, lates=[0, 1, 3 * U])
        progs.append(p)
    progmap = {p['id']: p for p in progs}
    rnd.shuffle(progs)          # spread the expensive DFS programs over the driver processes
    traces = run_batches(ctx, progs)
    ctx.cov['evaluations'] += len(traces)
    skipped = [t for t in traces if t.get('nondyadic')]
    traces = [t for t in traces if not t.get('nondyadic')]
    ctx.cov['executions_skipped_finer_than_trace_unit'] = len(skipped)
    if len(skipped) > len(traces) // 20:
        raise MachineryError('too many executions with times finer than the trace unit: %d' % len(skipped))
    for t in traces:
        t.pop('branch', None)
    # vacuity guard: every kind of event the monitor has a clause for must occur in what it is fed
    hist = {}
    for t in traces:
        for e in t['ev']:
            k = e['op'] + (':' + e['api'] if e['op'] == 'call' else '') + (':' + e['res'] if e['op'] == 'task_end' else '')
            hist[k] = hist.get(k, 0) + 1
    ctx.cov['event_histogram'] = dict(sorted(hist.items()))
    for need in ('call:sched', 'call:sched_abs', 'call:clear', 'call:tempo', 'call:stop', 'task_begin', 'task_end:ret',
                 'task_end:raise', 'task_end:stop', 'task_end:none', 'wait', 'wake', 'notify', 'tick', 'exit', 'mkclock', 'end'):
        if not hist.get(need):
            raise MachineryError('vacuity: no %s event in the recorded executions' % need)
    verdicts = ctx.validate('TraceClock', 'TraceClock.cfg', traces, timeout=1500)
    nontriv = 0
    for t in traces:
        if nontrivial(t):
            ctx.nontrivial([t['ev']])
        v = verdicts[t['id']]
        if v is None:
            continue
        at, why = v
        if why in ('tick-in-call', 'nondyadic', 'wrong-thread', 'end-without-begin', 'branch-dead'):
            raise MachineryError('trace %s rejected for a harness reason: %s at %d' % (t['id'], why, at))
        base = max(k for k in progmap if k <= t['id'])
        ctx.violation(classify(t, at, why),
                      'clock execution rejected by ClockL1 (%s) at event %d: %s' % (why, at, brief(t['ev'][at - 1])),
                      dict(kind='clock-execution', program=progmap[base], choices=t.get('choices'), rejected_at=at,
                           why=why, events=[brief(e) for e in t['ev'][max(0, at - 25):at]]))
    ctx.sample(dict(program=progs[0], first_events=[brief(e) for e in traces[0]['ev'][:30]]))
    ctx.cov['rule'] = ('%d seeded random programs (2-7 tasks as functions/routines with scripted results: numeric delta, None, '
                       'raise, StopStream, other; nested sched/clear/tempo from inside tasks; 1-3 threads issuing sched/'
                       'sched_abs/clear/tempo/sleep on SystemClock, AppClock and up to 2 TempoClocks) each run under one seeded '
                       'random or PCT schedule with random timer lateness (0..3 s), plus bounded DFS (depth 14) over all '
                       'schedules x latenesses of %d tiny programs; non-trivial = a scheduling call/tempo change landed while '
                       'the target clock thread slept, or a task raised; distinct by event sequence' % (nprog, ndfs))
    ctx.assumptions += ['interleavings are explored at lock granularity under virtual time (cosched); the CPython/OS scheduler '
                        'itself and wall-clock accuracy are not exercised',
                        'times are dyadic (multiples of 1/1024 s) so float arithmetic is exact',
                        'scheduling a task object that is still pending moves its entry (one wake-up per final scheduling, see C09)']


def design(ctx):
    """lock-granularity protocol models: the code's protocols satisfy the L1 clauses; the known-wrong
    protocols (pinned AppClock, notify-only-when-empty, tempo change without notify) violate them, which
    shows the clauses are not vacuous."""
    thorough = not ctx.quick
    r = ctx.model_check('ClockRT', 'ClockRT_thorough.cfg' if thorough else 'ClockRT.cfg', timeout=2400,
                        require_cover=('Tick', 'CRun', 'UClear', 'UTempo', 'USched'))
    ctx.expect_ok(r, 'ClockRT')
    for mod, cfg in (('ClockRT', 'ClockRT_live.cfg'), ('AppClockRT', 'AppClockRT.cfg'), ('AppClockRT', 'AppClockRT_live.cfg')):
        r = ctx.model_check(mod, cfg, timeout=900, workers=8)
        ctx.expect_ok(r, cfg)
    bad = []
    for mod, cfg in (('ClockRT', 'ClockRT_bad_empty.cfg'), ('ClockRT', 'ClockRT_bad_retime.cfg'),
                     ('ClockRT', 'ClockRT_live_bad.cfg'), ('AppClockRT', 'AppClockRT_pinned.cfg'),
                     ('AppClockRT', 'AppClockRT_live_pinned.cfg')):
        from harness import tlc
        r = tlc.run(mod, cfg, ctx.work, workers=4, timeout=600)
        if r.ok or not r.violated:
            raise MachineryError('sensitivity: known-wrong protocol %s was not rejected by TLC' % cfg)
        bad.append(dict(cfg=cfg, violated=r.violated))
    ctx.cov['known_wrong_protocols_rejected'] = bad


def replay_protocol(ctx):
    """S->C: behaviours of the AppClockRT protocol model (TLC -simulate) replayed on the real AppClock under the
    controlled scheduler, one model action = "run thread X until event E"; TLC (TraceAppReplay) compares the
    projected real state with the model state after every action.  A mismatch is model drift, not an alarm."""
    from harness import tlc
    n = 3000 if not ctx.quick else 300
    behs, r = tlc.simulate_behaviours('AppClockRT', 'AppClockRT_sim.cfg', ctx.work, num=n, depth=16, seed=ctx.seed + 3)
    ctx.cov['transitions'] += r.generated

    def conv(b):
        out = []
        prev = b[0][1]
        for act, st in b[1:]:
            u, d = '', 0
            if act in ('UAdd', 'UNotify'):
                u = [x for x in st['upc'] if st['upc'][x] != prev['upc'][x]][0]
                if act == 'UAdd':
                    d = [e for e in st['q'] if e['t'] == u][0]['p'] - st['now']
            out.append(dict(act=act, u=u, d=d, st=dict(q=st['q'], now=st['now'], cpc=st['cpc'], dl=st['dl'], woken=st['woken'])))
            prev = st
        return out
    bs = [conv(b) for b in behs]
    ids = list(range(len(bs)))
    traces = []
    per = max(1, (len(bs) + 15) // 16)
    todo = [(ids[i:i + per], bs[i:i + per]) for i in range(0, len(bs), per)]
    while todo:
        outs = ctx.run_drivers('drivers/c08_replay.py', [dict(behaviours=b, ids=i, unit=0.125) for i, b in todo], mode='rt', timeout=1800)
        nxt = []
        for (i, b), o in zip(todo, outs):
            traces += o['traces']
            if o['done'] < len(b):
                nxt.append((i[o['done']:], b[o['done']:]))
        todo = nxt
    v = ctx.validate('TraceAppReplay', 'TraceAppReplay.cfg', traces)
    bad = {k: x for k, x in v.items() if x is not None}
    ctx.cov['protocol_behaviours_replayed'] = len(traces)
    ctx.cov['protocol_replay_mismatches'] = len(bad)
    for k, x in list(bad.items())[:5]:
        ctx.note_drift('AppClockRT behaviour %d: real AppClock differs from the model after action %d (%s)' % (k, x[0], x[1]))
    if bad:
        print('DRIFT C08: %d of %d replayed AppClockRT behaviours differ from the real AppClock (model drift, not a violation)'
              % (len(bad), len(traces)))


def brief(e):
    return {k: v for k, v in e.items() if v not in ('', 0, [], False, -1) or k in ('now', 'op')}


def replay(ctx, rp):
    r = rp['replay']
    p = dict(r['program'])
    if r.get('choices') is not None:
        p['strategy'] = dict(kind='choice', choices=r['choices'], lates=[0, 1, 3 * U])
    traces = run_batches(ctx, [p], nproc=1)
    for t in traces:
        t.pop('branch', None)
    verdicts = ctx.validate('TraceClock', 'TraceClock.cfg', traces)
    ctx.cov['evaluations'] = len(traces)
    for t in traces:
        v = verdicts[t['id']]
        ctx.sample(dict(verdict=v))
        if v is not None:
            ctx.violation(classify(t, v[0], v[1]), 'replayed: %s at event %d' % (v[1], v[0]),
                          dict(kind='clock-execution', program=p, choices=r.get('choices'), rejected_at=v[0], why=v[1]))


MANIFEST = dict(
    category='model_checking',
    text=('ClockL1.tla states what RT clocks owe their users (exactly once per scheduling, never early, (time, FIFO) order, '
          're-scheduling relative to the scheduled time / physical now on AppClock, no sleeping past a new head, cancellation, '
          'survival of raising tasks) as a monitor that TLC evaluates on every event of executions of the REAL SystemClock, '
          'AppClock and TempoClock run unmodified under a controlled scheduler (all lock-granularity interleavings reachable: '
          'seeded random + PCT schedules with timer lateness, bounded DFS over all schedules of tiny programs). ClockRT.tla / '
          'AppClockRT.tla model the sleep/wake protocols at the same granularity and are checked exhaustively incl. liveness; '
          'the pinned (lost wake-up) protocol and two other wrong designs are rejected by the same clauses; simulated behaviours of the AppClock protocol model are replayed on the real AppClock with directed scheduling and compared state by state (S->C).'),
    note=('Trusted: TLC, harness/cosched.py (baton-passing scheduler replacing threading/time module globals), the driver\'s task '
          'wrappers. Virtual time at lock granularity: OS scheduling below that and wall-clock accuracy are not exercised. '
          'User-thread tempo changes are issued with the library lock held (the unlocked setter race is reported under C07).'),
    technique='TLA+ monitor (ClockL1) validated by TLC on traces of the real clocks under a controlled scheduler + TLC-checked protocol models',
    design_ref='DESIGN.md section 3 / C08',
    engine='ClockL1',
)
