"""Driver for C16: run alloc/free histories on the real sc3 allocators and record what came back.

Input : {"cases": [case, ...]}; a case is one of
  {"kind": "raw", "size", "pos", "off", "hist": [...], "tiebreak": "all"|"random"|"script", "script": [...], "project": bool}
        real ContiguousBlockAllocator(size, pos, off)
  {"kind": "srv", "what": "abus"|"cbus"|"buf", "client", "logins", "total", "reserved", "hist", "tiebreak"}
        Server(options) with _set_client_id(client) -> AudioBus / ControlBus / Buffer constructors and .free()
  {"kind": "ids", "via": "raw"|"server"|"group"|"synth", "client", "init", "start", "count"}
        NodeIDAllocator(client, init) (or the server's) with the counter set to `start`
  hist entries: ["a", n] alloc n | ["f", k] free what the k-th alloc of this history returned (again = double
  free) | ["fn"] free(None) | ["fa", addr] free an absolute address.
Output: {"traces": [...]}: every trace carries "case" (index in the input); ids are assigned by the caller.
No verdicts here: TraceAlloc.tla / TraceNodeIds.tla decide.

Tie-breaks: _engine's `bi.choice` is replaced by a chooser working on the candidates sorted by block start:
  "all"    - every combination of choices is executed (depth-first over the choice points, one trace each)
  "random" - seeded random choice
  "script" - the picks (block start addresses, -1 = no choice point) come with the case (S->C replay)."""
import json
import os
import random
import sys
import types

MAX_BRANCHES = 256


class Chooser:
    def __init__(self):
        self.mode = 'first'
        self.script = []
        self.pos = 0
        self.arity = []
        self.rnd = random.Random(0)
        self.want = None
        self.missed = 0
        self.points = 0

    def reset(self, mode, script=(), seed=0):
        self.mode, self.script, self.pos, self.arity = mode, list(script), 0, []
        self.rnd = random.Random(seed)
        self.want = None
        self.missed = 0
        self.points = 0

    def __call__(self, lst):
        c = sorted(lst, key=lambda b: (b.start, b.size))
        if len(c) > 1:
            self.points += 1
        if self.mode == 'random':
            return self.rnd.choice(c)
        if self.mode == 'want':           # S->C replay: pick the block TLC picked
            for b in c:
                if b.start == self.want:
                    return b
            self.missed += 1
            return c[0]
        # 'dfs': follow the script, then take the first; remember how many alternatives there were
        i = self.script[self.pos] if self.pos < len(self.script) else 0
        self.pos += 1
        self.arity.append(len(c))
        return c[i]


CH = Chooser()


def project(a):
    """concrete -> abstract state of ContiguousBlockAllocator for the L2 comparison (drift only)"""
    blocks = [[b.start, b.size, 1 if b.used else 0] for b in a._array if b is not None]
    freed = sorted([b.start, b.size] for s in a._freed.values() for b in s)
    return dict(blocks=blocks, top=a.top, freed=freed, fkeys=list(a._freed.keys()),
                used=sorted([b.start, b.size] for b in a.blocks()))


def kind_of(ex, nospace):
    return 'none' if nospace else 'exc:' + type(ex).__name__


def run_raw_once(eng, case):
    a = eng.ContiguousBlockAllocator(case['size'], case['pos'], case['off'])
    ev, got, proj = [], [], []
    picks = case.get('script') or []
    for i, h in enumerate(case['hist']):
        if CH.mode == 'want':
            CH.want = picks[i] if i < len(picks) else -1
        try:
            if h[0] == 'B':
                bl = [[b.start, b.size] for b in a.blocks()]
                e = dict(n='blocks', x=0, k='ok', r=-1, bl=bl)
            elif h[0] == 'A':       # what Server._free_all_buffers does with its allocator (S->C replay of the L2 action)
                for b in a.blocks():
                    a.free(b.address)
                e = dict(n='freeall', x=0, k='ok', r=-1)
            elif h[0] == 'a':
                r = a.alloc(h[1])
                got.append(r)
                e = dict(n='alloc', x=h[1], k='none' if r is None else 'ok', r=-1 if r is None else r)
                if r is not None and not isinstance(r, int):
                    e = dict(n='alloc', x=h[1], k='exc:returned ' + type(r).__name__, r=-2)
            else:
                if h[0] == 'f':
                    addr = got[h[1]] if h[1] < len(got) else None
                elif h[0] == 'fa':
                    addr = h[1]
                else:
                    addr = None
                r = a.free(addr)
                e = dict(n='free', x=-1 if addr is None else addr, k='ok' if r is None else 'exc:returned', r=-1)
        except Exception as ex:     # recorded, judged by the spec
            if h[0] == 'a':
                got.append(None)
            e = dict(n='alloc' if h[0] == 'a' else 'free', x=h[1] if len(h) > 1 else -1, k='exc:' + type(ex).__name__, r=-2)
        ev.append(e)
        if case.get('project'):
            try:
                proj.append(project(a))
            except Exception as ex:
                proj.append(dict(error=repr(ex)))
    return ev, proj


_COUNT = [0]


def make_server(srv, nad, case, cache={}):
    io = case.get('io', 4)      # hardware input + output channels; 0: the audio-bus space starts at index 0
    key = (case['what'], case['logins'], case['total'], case['reserved'], io)
    s = cache.get(key)
    if s is None:
        o = srv.ServerOptions()
        o.max_logins = case['logins']
        o.input_channels = io // 2
        o.output_channels = io - io // 2
        # every address space gets a different total so that a mix-up of the three allocators shows
        o.buffers, o.control_buses, o.audio_buses = 1024, 16384, 1024
        o.reserved_buffers = o.reserved_control_buses = o.reserved_audio_buses = 0
        if case['what'] == 'buf':
            o.buffers, o.reserved_buffers = case['total'], case['reserved']
        elif case['what'] == 'cbus':
            o.control_buses, o.reserved_control_buses = case['total'], case['reserved']
        elif case['what'] == 'abus':
            o.audio_buses, o.reserved_audio_buses = case['total'] + io, case['reserved']
        else:
            o.initial_node_id = case['total']
        _COUNT[0] += 1
        s = srv.Server('c16_%d' % _COUNT[0], nad.NetAddr('127.0.0.1', 57300 + _COUNT[0]), o)
        cache[key] = s
    s._set_client_id(case['client'])        # fresh allocators for this client id
    if s.client_id != case['client']:
        raise RuntimeError('client id not taken')
    return s


def registered_server(mods, case, i, cache={}):
    """Server object number i of a 'reg' case, registered the way the library does it when the server answers
    '/notify': via = 'handler' calls ServerStatusWatcher._handle_login_done(client id, reported max logins) - what the
    '/done /notify' responder calls; via = 'reply' (RT) sends the notify request with the watcher in its registering
    state and feeds the reply datagram ['/done', '/notify', id, maxLogins] to the OSC interface's request handler."""
    srv, nad, bus, buf = mods
    sv = case['servers'][i]
    key = (case['what'], sv['local'], case['total'], case['reserved'], i)
    s = cache.get(key)
    if s is None:
        s = make_server(srv, nad, dict(what=case['what'], logins=sv['local'], total=case['total'],
                                       reserved=case['reserved'], client=0), cache={})
        cache[key] = s
    sw = s._status_watcher
    sw._max_logins = None           # not registered (what _unregister leaves behind)
    s._set_client_id(0)             # fresh allocators of an unregistered client
    rep = case['reported'] or None
    if case.get('via', 'handler') == 'handler':
        sw._handle_login_done(sv['client'], rep)
    else:
        import struct
        import time
        import sc3.base.main as bm
        iface = bm.main._osc_interface
        iface._send = lambda msg, target: None       # nothing leaves the process
        done = []
        # the '/done' responder calls this last, after _handle_login_done (it would only start a routine that waits for
        # '/synced'); it tells the driver that the reply has been processed completely
        sw._finalize_register_done = lambda: done.append(1)
        sw._notified = False
        sw._server_registering = True
        sw._send_notify_request(True)
        d = b'/done\0\0\0' + (b',sii\0\0\0\0' if rep else b',si\0') + b'/notify\0' + struct.pack('>i', sv['client'])
        if rep:
            d += struct.pack('>i', rep)
        iface._handle_request(d, (s.addr.hostname, s.addr.port))
        t0 = time.time()
        while not done and time.time() - t0 < 3:
            time.sleep(0.002)
        sw._server_registering = False
        if not done:
            raise RuntimeError('registration reply was not processed')
    return s


def run_srv_once(mods, case):
    srv, nad, bus, buf = mods
    if case['kind'] == 'reg':
        try:
            servers = [registered_server(mods, case, i) for i in range(len(case['servers']))]
        except Exception as ex:     # registration itself failed: recorded, judged by the spec ("raised")
            return [dict(n='alloc', x=1, k='exc:registration:' + type(ex).__name__, r=-2, w=1)], []
    else:
        servers = [make_server(srv, nad, case)]
    what = case['what']
    ev, objs = [], []
    evs = ev
    for h in case['hist']:
        wi = h[2] if len(h) > 2 else 1
        s = servers[wi - 1]
        ev = []
        if h[0] == 'f' and h[1] < len(objs) and objs[h[1]][1]:
            wi = objs[h[1]][0]
        _srv_step(mods, what, s, h, objs, ev, wi)
        for e in ev:
            e['w'] = wi
        evs.extend(ev)
    return evs, []


def _srv_step(mods, what, s, h, objs_w, ev, wi):
    srv, nad, bus, buf = mods
    objs = _ObjView(objs_w, wi)
    if True:
        if h[0] == 'a':
            n = h[1]
            try:
                if what == 'abus':
                    o = [bus.AudioBus(n, s)]
                    idx = o[0].index
                elif what == 'cbus':
                    o = [bus.ControlBus(n, s)]
                    idx = o[0].index
                elif n == 1:
                    o = [buf.Buffer(8, 1, s)]
                    idx = o[0].bufnum
                else:
                    o = buf.Buffer.new_consecutive(n, 8, 1, s)
                    idx = o[0].bufnum
                    if [b.bufnum for b in o] != list(range(idx, idx + n)):
                        idx = None      # recorded as a malformed answer
                objs.append(o)
                if isinstance(idx, int):
                    ev.append(dict(n='alloc', x=n, k='ok', r=idx))
                else:
                    ev.append(dict(n='alloc', x=n, k='exc:index ' + repr(idx), r=-2))
            except Exception as ex:
                objs.append([])
                msg = str(ex)
                nospace = (isinstance(ex, bus.BusException) and 'failed to get' in msg) or \
                    ('consecutive buffer numbers is available' in msg) or ('No more buffer numbers' in msg)
                ev.append(dict(n='alloc', x=n, k=kind_of(ex, nospace), r=-1 if nospace else -2))
        elif h[0] == 'B':           # the allocator's own list of live ranges
            al = {'abus': s._audio_bus_allocator, 'cbus': s._control_bus_allocator, 'buf': s._buffer_allocator}[what]
            try:
                ev.append(dict(n='blocks', x=0, k='ok', r=-1, bl=[[b.start, b.size] for b in al.blocks()]))
            except Exception as ex:
                ev.append(dict(n='blocks', x=0, k='exc:' + type(ex).__name__, r=-2, bl=[]))
        elif h[0] == 'A':           # Buffer.free_all(server)
            try:
                buf.Buffer.free_all(s)
                ev.append(dict(n='freeall', x=0, k='ok', r=-1))
            except Exception as ex:
                ev.append(dict(n='freeall', x=0, k='exc:' + type(ex).__name__, r=-2))
        elif h[0] == 'f':
            group = objs[h[1]] if h[1] < len(objs) else []
            if not group:
                ev.append(dict(n='free', x=-1, k='ok', r=-1))
            for o in group:
                addr = o.index if what != 'buf' else o.bufnum
                try:
                    o.free()
                    ev.append(dict(n='free', x=-1 if addr is None else addr, k='ok', r=-1))
                except Exception as ex:
                    ev.append(dict(n='free', x=-1 if addr is None else addr, k='exc:' + type(ex).__name__, r=-2))
        else:
            ev.append(dict(n='free', x=-1, k='ok', r=-1))


class _ObjView:
    """objs_w holds (w, objects) per alloc of the history; the step code sees plain object lists"""
    def __init__(self, lst, wi):
        self.lst, self.wi = lst, wi

    def append(self, o):
        self.lst.append((self.wi, o))

    def __len__(self):
        return len(self.lst)

    def __getitem__(self, k):
        return self.lst[k][1]


def run_with_tiebreaks(case, once):
    """-> list of (choices, ev, proj)"""
    tb = case.get('tiebreak', 'all')
    out = []
    if tb == 'random':
        CH.reset('random', seed=case.get('seed', 0))
        ev, proj = once(case)
        return [(['random', case.get('seed', 0)], ev, proj, CH.points)]
    if tb == 'script':
        CH.reset('want')
        ev, proj = once(case)
        return [(['script', CH.missed], ev, proj, CH.points)]
    stack = [[]]
    while stack and len(out) < MAX_BRANCHES:
        script = stack.pop()
        CH.reset('dfs', script)
        ev, proj = once(case)
        out.append((list(CH.script) + [0] * (len(CH.arity) - len(CH.script)), ev, proj, CH.points))
        # siblings: for every choice point after the scripted prefix, the other alternatives
        for p in range(len(script), len(CH.arity)):
            for alt in range(1, CH.arity[p]):
                stack.append((list(script) + [0] * (p - len(script)))[:p] + [alt])
    return out


def run_ids(mods, eng, case):
    srv, nad, bus, buf = mods
    via = case['via']
    ids, exc = [], ''
    try:
        if via == 'raw':
            al = eng.NodeIDAllocator(case['client'], case['init'])
            al._temp = case['start']
            ids = [al.alloc() for _ in range(case['count'])]
        else:
            from sc3.synth import node as nod
            s = make_server(srv, nad, dict(what='ids', logins=case['logins'], total=case['init'], reserved=0,
                                           client=case['client']))
            s._node_allocator._temp = case['start']
            for _ in range(case['count']):
                if via == 'server':
                    ids.append(s._next_node_id())
                elif via == 'group':
                    ids.append(nod.Group.basic_new(s).node_id)
                elif via == 'pargroup':
                    ids.append(nod.ParGroup.basic_new(s).node_id)
                else:
                    ids.append(nod.Synth.basic_new('default', s).node_id)
        if not all(isinstance(i, int) and 0 <= i < 2 ** 31 for i in ids):
            exc, ids = 'ids not int32: %r' % ids[:4], []
    except Exception as ex:
        exc, ids = 'exc:' + type(ex).__name__ + ':' + str(ex)[:80], []
    return dict(client=case['client'], init=case['init'], ids=ids, exc=exc)


def main():
    inp = json.load(open(sys.argv[1]))
    import sc3
    mode = os.environ.get('VERIF_MODE', 'nrt')
    if mode == 'rt':        # many driver processes run side by side: stay away from the default port range
        sc3.LIB_PORT = 20000 + (os.getpid() * 13) % 30000
        sc3.LIB_PORT_RANGE = 200
    sc3.init(mode)
    from sc3.synth import _engine as eng
    from sc3.synth import server as srv, bus, buffer as buf
    from sc3.base import netaddr as nad
    real_bi = eng.bi
    eng.bi = types.SimpleNamespace(choice=CH, wrap=real_bi.wrap)
    mods = (srv, nad, bus, buf)
    out = []
    for ci, case in enumerate(inp['cases']):
        if case['kind'] == 'ids':
            t = run_ids(mods, eng, case)
            t['case'] = ci
            out.append(t)
            continue
        if case['kind'] == 'reg':
            parts = [dict(total=case['total'], logins=sv['local'], reported=case['reported'], reserved=case['reserved'],
                          io=4 if case['what'] == 'abus' else 0, client=sv['client']) for sv in case['servers']]
            for choices, ev, proj, points in run_with_tiebreaks(case, lambda c: run_srv_once(mods, c)):
                out.append(dict(case=ci, parts=parts, ev=ev, choices=choices, points=points))
            continue
        if case['kind'] == 'raw':
            part = dict(total=case['size'], logins=1, reserved=case['pos'], io=case['off'], client=0)
            runs = run_with_tiebreaks(case, lambda c: run_raw_once(eng, c))
        else:
            part = dict(total=case['total'], logins=case['logins'], reserved=case['reserved'],
                        io=case.get('io', 4) if case['what'] == 'abus' else 0, client=case['client'])
            runs = run_with_tiebreaks(case, lambda c: run_srv_once(mods, c))
        for choices, ev, proj, points in runs:
            t = dict(case=ci, part=part, ev=ev, choices=choices, points=points)
            if proj:
                t['proj'] = proj
            out.append(t)
    json.dump({'traces': out}, open(sys.argv[2], 'w'))


if __name__ == '__main__':
    import sc3
    assert os.path.realpath(sc3.__file__).startswith(os.path.realpath(os.environ.get('SC3_REPO', '/repo'))), sc3.__file__
    main()
