"""Driver for C01/C02: build real SynthDefs from programs and record what was emitted.
Input : {"ids": [...], "progs": [program...], "desc": 0/1, "keep": 0/1, "variants": {...}|null}
Output: {"recs": [{id, prog, raised, err, msg, parsed, m, created, wf, wf_lost, sha, nbytes, (desc)}]}
No verdicts here: records go to TLC (TraceSynthGraph.tla / TraceScgf.tla)."""
import json
import logging
import os
import sys


def main():
    inp = json.load(open(sys.argv[1]))
    import sc3
    assert os.path.realpath(sc3.__file__).startswith(os.path.realpath(os.environ.get('SC3_REPO', '/repo'))), sc3.__file__
    logging.disable(logging.WARNING)
    sc3.init(os.environ.get('VERIF_MODE', 'nrt'))
    from harness import sgbuild
    b = sgbuild.Builder()
    out = []
    for i, prog in zip(inp['ids'], inp['progs']):
        rec = b.build(prog, desc=bool(inp.get('desc')), keep=bool(inp.get('keep')),
                      variants=prog.get('variants'))
        rec['id'] = i
        rec['prog'] = prog
        out.append(rec)
    json.dump({'recs': out}, open(sys.argv[2], 'w'))


if __name__ == '__main__':
    main()
