"""S->C for C08: behaviours of the AppClockRT protocol model (TLC -simulate) replayed step by step on the REAL
AppClock under the controlled scheduler.  Every model action is mapped to "run thread X until it emits event E";
after every action the projected real state (queue, clock thread state, wake-ups) is recorded next to the
model's state.  The comparison is made by TLC (TraceAppReplay.tla), not here.

Input : {"behaviours": [[{"act": name, "u": user or "", "d": delta, "st": {model vars}}, ...], ...], "unit": seconds}
Output: {"traces": [{"id", "ev": [{"act", "model": {...}, "real": {...}}], "abort": str}]}
"""
import json
import os
import sys

from harness import cosched


def main_():
    inp = json.load(open(sys.argv[1]))
    S = cosched.install(cosched.FifoStrategy(), max_steps=200_000)
    import sc3
    sc3.init('rt', 'CRITICAL')
    import logging
    logging.disable(logging.CRITICAL)
    from sc3.base.main import main
    from sc3.base import clock as clk
    from sc3.base import functions as fn
    unit = inp['unit']
    out = []
    for bi, beh in enumerate(inp['behaviours']):
        out.append(replay(S, main, clk, fn, beh, unit, inp['ids'][bi]))
        if out[-1].get('abort'):
            break
    json.dump({'traces': out, 'done': len(out)}, open(sys.argv[2], 'w'))
    sys.stdout.flush()
    os._exit(0)


def replay(S, main, clk, fn, beh, unit, tid):
    app = clk.AppClock
    S.strategy = cosched.FifoStrategy()
    app.clear()
    S.settle(horizon=S.now)
    S.log = []
    S.log_on = True
    ct = app._thread._m                 # the clock's managed thread
    base = S.now
    woken = []
    users = {}
    D = cosched.DirectedStrategy()
    S.strategy = D
    ev = []
    res = dict(id=tid, ev=ev, abort='')

    def run_until(th, pred):
        D.target = th
        n0 = len(S.log)
        S.settle(horizon=None, until=lambda: any(pred(e) for e in S.log[n0:]))

    def mk_task(u):
        def f():
            woken.append(dict(t=u, time=units(main.current_tt._seconds - base_el), at=units(S.now - base)))
        return fn.Function(f)

    def units(x):
        v = x / unit
        return int(round(v)) if abs(v - round(v)) < 1e-9 else -999

    def project():
        tq = app._scheduler.queue
        live = sorted((e for e in tq._queue if e[2] is not tq._REMOVED), key=lambda e: (e[0], e[1]))
        names = {id(t): u for u, (t, th) in users.items()}
        return dict(q=[[units(e[0] - base_el), names.get(id(e[2]), '?')] for e in live],
                    waiting=ct.state == 'wait', dl=-1 if ct.deadline is None or ct.state != 'wait' else units(ct.deadline - base),
                    woken=[dict(w) for w in woken], now=units(S.now - base))

    base_el = main.elapsed_time()
    try:
        # bring the real clock to the model's initial control point ("about to tick"): wake it once
        with app._tick_cond:
            app._tick_cond.notify()
        run_until(ct.name, lambda e: e['th'] == ct.name and e['op'] == 'rel' and e['lock'] != 'Lmain')
        for step in beh:
            a = step['act']
            if a == 'Tick':
                S._tick(S.now + unit)
            elif a == 'UAdd':
                u = step['u']
                task = mk_task(u)
                th = S.spawn(lambda task=task, d=step['d']: app.sched(d * unit, task), 'user-' + u)
                users[u] = (task, th._m.name)
                run_until(th._m.name, lambda e, n=th._m.name: e['th'] == n and e['op'] == 'rel' and e['lock'] == 'Lmain')
            elif a == 'UNotify':
                n = users[step['u']][1]
                run_until(n, lambda e, n=n: e['th'] == n and e['op'] == 'exit')
            elif a == 'CTick':
                run_until(ct.name, lambda e: e['th'] == ct.name and e['op'] == 'rel' and e['lock'] == 'Lmain')
            elif a == 'CWait':
                # either goes to sleep, or (pending flag) skips the wait and releases the condition's lock
                run_until(ct.name, lambda e: e['th'] == ct.name and (e['op'] == 'wait' or (e['op'] == 'rel' and e['lock'] != 'Lmain')))
            elif a == 'CWake':
                run_until(ct.name, lambda e: e['th'] == ct.name and e['op'] == 'rel' and e['lock'] != 'Lmain')
            else:
                raise AssertionError(a)
            ev.append(dict(act=a, model=step['st'], real=project()))
    except (cosched.Deadlock, cosched.StepLimit) as e:
        res['abort'] = str(e)[:200]
        ev.append(dict(act='ABORT', model={}, real={}))
    S.log_on = False
    S.strategy = cosched.FifoStrategy()
    if not res['abort']:
        for u, (t, n) in users.items():
            pass
        S.settle(horizon=S.now + 100 * unit)     # let leftovers finish
    return res


if __name__ == '__main__':
    main_()
