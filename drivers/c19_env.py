"""Driver for C19: build envelopes with the real sc3 Env, record what the code produced.
Input : {"cases": [case, ...]}; a case is a trace without observations:
        {id, c, lv, tm, cv, rel, loop, off, p, pts, fl, ev: [{n: fmt|ugen|at, t, ctl}, ...]}
        numbers are rationals [num, den]; curves are {nm, v}; rel/loop are [] or [k].
Output: {"traces": [case with ev[i].r = {k, v, x} and ev[i].off filled in]}
No verdicts here: every trace goes to TLC (TraceEnv.tla).  Projection: fix(v) = floor(v * 2^20)."""
import json
import math
import struct
import sys
from fractions import Fraction

FP = 1 << 20
LIM = (1 << 31) - 1


def num(r, fl):
    n, d = r
    if d == 1 and not fl:
        return n
    return n / d


def fix(v):
    if isinstance(v, bool) or not isinstance(v, (int, float)):
        raise ValueError('not a number: %r' % (v,))
    if isinstance(v, float) and not math.isfinite(v):
        raise ValueError('non finite')
    x = math.floor(Fraction(v) * FP)
    return max(-LIM, min(LIM, x))


def curve(c, fl):
    return num(c['v'], fl) if c['nm'] == '#' else c['nm']


def curves_arg(cv, fl):
    """a curve argument: one curve is passed as a scalar, several as a list"""
    if len(cv) == 1:
        return curve(cv[0], fl)
    return [curve(c, fl) for c in cv]


def node(x):
    return x[0] if x else None


def build(case):
    from sc3.synth.envelope import Env
    fl = case.get('fl', 0)
    c = case['c']
    p = [num(x, fl) for x in case['p']]
    cv = case['cv']
    if case.get('dflt'):          # the constructor's own default arguments
        return getattr(Env, c)()
    if c == 'mc':
        def entries(lst, flags, conv):
            out = []
            for e, sc in zip(lst, flags):
                vals = [conv(x) for x in e]
                out.append(vals[0] if sc and len(vals) == 1 else vals)
            return out
        sc = case['sc']
        return Env(entries(case['lv'], sc['lv'], lambda x: num(x, fl)), entries(case['tm'], sc['tm'], lambda x: num(x, fl)),
                   entries(case['cv'], sc['cv'], lambda x: curve(x, fl)), node(case['rel']), node(case['loop']),
                   num(case['off'], fl))
    if c == 'new':
        tm = [num(x, fl) for x in case['tm']]
        cvs = [curve(x, fl) for x in cv]
        if case.get('scalar_cv') and len(cvs) == 1:
            cvs = cvs[0]
        if case.get('scalar_tm') and len(tm) == 1:
            tm = tm[0]
        return Env([num(x, fl) for x in case['lv']], tm, cvs, node(case['rel']), node(case['loop']),
                   num(case['off'], fl))
    if c == 'triangle':
        return Env.triangle(*p)
    if c == 'sine':
        return Env.sine(*p)
    if c == 'perc':
        return Env.perc(p[0], p[1], p[2], curves_arg(cv, fl))
    if c == 'linen':
        return Env.linen(p[0], p[1], p[2], p[3], curves_arg(cv, fl))
    if c == 'step':
        kw = {}
        if case['rel']:
            kw['release_level'] = case['rel'][0]
        if case['loop']:
            kw['loop_level'] = case['loop'][0]
        if case['off'] != [0, 1]:
            kw['offset'] = num(case['off'], fl)
        return Env.step([num(x, fl) for x in case['lv']], [num(x, fl) for x in case['tm']], **kw)
    if c == 'cutoff':
        return Env.cutoff(p[0], p[1], curves_arg(cv, fl))
    if c == 'dadsr':
        return Env.dadsr(p[0], p[1], p[2], p[3], p[4], p[5], curves_arg(cv, fl), p[6])
    if c == 'adsr':
        return Env.adsr(p[0], p[1], p[2], p[3], p[4], curves_arg(cv, fl), p[5])
    if c == 'asr':
        return Env.asr(p[0], p[1], p[2], curves_arg(cv, fl))
    if c == 'xyc':
        return Env.xyc([[num(q['t'], fl), num(q['l'], fl), curve(q['c'], fl)] for q in case['pts']])
    if c == 'pairs':
        pts = [[num(q['t'], fl), num(q['l'], fl)] for q in case['pts']]
        if case.get('cv_none'):
            return Env.pairs(pts)
        return Env.pairs(pts, curves_arg(cv, fl))
    raise AssertionError(c)


# ---------------------------------------------------------------- SCgf (version 2) reader
def read_scgf(b):
    """-> list of defs: {name, consts, ugens: [{cls, rate, inputs: [(ugen, out)], nout}]}"""
    b = bytes(b)
    pos = [0]

    def take(fmt):
        sz = struct.calcsize(fmt)
        v = struct.unpack_from(fmt, b, pos[0])
        pos[0] += sz
        return v[0] if len(v) == 1 else v

    def pstr():
        n = take('>B')
        s = b[pos[0]:pos[0] + n].decode('latin1')
        pos[0] += n
        return s

    assert b[:4] == b'SCgf'
    pos[0] = 4
    ver = take('>i')
    assert ver == 2, ver
    defs = []
    for _ in range(take('>h')):
        d = {'name': pstr()}
        d['consts'] = [take('>f') for _ in range(take('>i'))]
        d['params'] = [take('>f') for _ in range(take('>i'))]
        d['pnames'] = [(pstr(), take('>i')) for _ in range(take('>i'))]
        ugens = []
        for _ in range(take('>i')):
            cls = pstr()
            rate = take('>b')
            nin = take('>i')
            nout = take('>i')
            special = take('>h')
            inputs = [take('>ii') for _ in range(nin)]
            outs = [take('>b') for _ in range(nout)]
            ugens.append(dict(cls=cls, rate=rate, special=special, inputs=inputs, nout=nout))
        d['ugens'] = ugens
        for _ in range(take('>h')):
            pstr()
            for _ in range(len(d['params'])):
                take('>f')
        defs.append(d)
    assert pos[0] == len(b), (pos[0], len(b))
    return defs


_counter = [0]


def ugen_inputs_mc(env, ctl):
    """EnvGen.kr(env, *ctl) for a multichannel envelope: the inputs of every EnvGen unit, in channel order"""
    from sc3.synth.synthdef import SynthDef
    from sc3.synth.ugens import EnvGen, Out
    _counter[0] += 1

    def graph():
        Out.kr(0, EnvGen.kr(env, *ctl))
    sd = SynthDef('c19m_%d' % _counter[0], graph)
    d = read_scgf(sd.as_bytes())[0]
    out = []
    for u in d['ugens']:
        if u['cls'] == 'EnvGen':
            vals = []
            for ui, o in u['inputs']:
                if ui != -1:
                    raise ValueError('non constant EnvGen input')
                vals.append(d['consts'][o])
            out.append(vals)
    return out


def ugen_inputs(env, ctl):
    """EnvGen.kr(env, *ctl) inside a SynthDef; the unit's inputs as numbers, read from the bytes"""
    from sc3.synth.synthdef import SynthDef
    from sc3.synth.ugens import EnvGen, Out
    _counter[0] += 1

    def graph():
        Out.kr(0, EnvGen.kr(env, *ctl))
    sd = SynthDef('c19_%d' % _counter[0], graph)
    d = read_scgf(sd.as_bytes())[0]
    eg = [u for u in d['ugens'] if u['cls'] == 'EnvGen']
    if len(eg) != 1:
        raise ValueError('%d EnvGen units' % len(eg))
    vals = []
    for u, o in eg[0]['inputs']:
        if u != -1:
            raise ValueError('non constant EnvGen input')
        vals.append(d['consts'][o])
    return vals


def observe(case):
    fl = case.get('fl', 0)
    env = None
    err = None
    try:
        env = build(case)
    except Exception as ex:        # recorded; the spec says whether a refusal was due
        err = type(ex).__name__
    out = []
    for e in case['ev']:
        e = dict(e)
        e.setdefault('t', 0)
        e.setdefault('ctl', [])
        e['off'] = 0
        if err is not None:
            e['r'] = {'k': 'exc', 'v': [], 'vv': [], 'x': err}
            out.append(e)
            continue
        try:
            if case['c'] == 'mc':
                if e['n'] == 'fmt':
                    vv = [[fix(x) for x in ch] for ch in env._envgen_format()]
                elif e['n'] == 'ugen':
                    vv = [[fix(x) for x in ch] for ch in ugen_inputs_mc(env, [num(x, fl) for x in e['ctl']])]
                elif e['n'] == 'at':
                    t = e['t']
                    r = env._at(t // 64 if t % 64 == 0 and not fl else t / 64)
                    vv = [[fix(x)] for x in (r if isinstance(r, list) else [r])]
                else:
                    raise AssertionError(e['n'])
                e['r'] = {'k': 'ok', 'v': [], 'vv': vv, 'x': ''}
            elif e['n'] == 'fmt':
                f = env._envgen_format()
                if len(f) != 1:
                    raise ValueError('multichannel')
                e['r'] = {'k': 'ok', 'v': [fix(x) for x in f[0]], 'x': ''}
                e['off'] = fix(env.offset)
            elif e['n'] == 'ugen':
                vals = ugen_inputs(env, [num(x, fl) for x in e['ctl']])
                e['r'] = {'k': 'ok', 'v': [fix(x) for x in vals], 'x': ''}
            elif e['n'] == 'at':
                t = e['t']
                tv = t // 64 if t % 64 == 0 and not fl else t / 64
                e['r'] = {'k': 'ok', 'v': [fix(env._at(tv))], 'x': ''}
            else:
                raise AssertionError(e['n'])
        except AssertionError:
            raise
        except Exception as ex:
            e['r'] = {'k': 'exc', 'v': [], 'vv': [], 'x': type(ex).__name__}
        out.append(e)
    tr = dict(case)
    tr['ev'] = out
    return tr


def main():
    import sc3
    sc3.init('nrt')
    inp = json.load(open(sys.argv[1]))
    traces = [observe(c) for c in inp['cases']]
    json.dump({'traces': traces}, open(sys.argv[2], 'w'))


if __name__ == '__main__':
    import logging
    logging.disable(logging.CRITICAL)
    import warnings
    warnings.simplefilter('ignore')
    import os
    import sc3
    assert os.path.realpath(sc3.__file__).startswith(os.path.realpath(os.environ.get('SC3_REPO', '/repo'))), sc3.__file__
    main()
