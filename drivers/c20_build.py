"""Driver for C20: histories of SynthDef builds (sequential, threaded with forced interleavings, GC stress).
Input : {"scenarios": [scenario...]}
  scenario = {"id": n, "kind": "seq", "steps": [step...]}                         one thread
           | {"id": n, "kind": "threads", "threads": [[step...], ...], "sync": [[ta, k, tb], ...]}
           | {"id": n, "kind": "gc", "n": builds, "prog": program}
           | {"id": n, "kind": "repeat", "progs": [P...], "keys": [...], "n": rebuilds, "seed": s}
  step = {"k": "build", "prog": P, "key": str} | {"k": "probe"} | {"k": "junk", "n": int} | {"k": "desc", "prog": P}
       | {"k": "annotate", "n": int}   mutate in place the variants / metadata dictionaries of the definition this thread
         built last (a variant for one of its own controls, a note, a spec)
       | {"k": "use", "prog": P, "key": str, "how": add|store|new_from|read_stream|descread|libread,
          "variant": valid|trunc|badclass|badrate|dupname, "cut": permille}   build P, then use the OTHER entry points
         that take the build lock and install a (dummy) current definition: the read-back of add/store/new_from, or the
         reader on the (possibly truncated / damaged) bytes in memory or in a file
  "pre": [P...] definitions built first (thread nt+1); step {"k": "readback", "pre": i, "how", "variant"} reads one back
  sync [ta, k, tb]: when thread ta reaches instruction k of its FIRST build it releases thread tb and waits until tb
  has announced its first attempt (plus a grace period so that tb really is blocked on the build lock).
Output: {"traces": [{"id", "kind", "ev": [event...]}]}; every event has all fields (uniform records for TLC):
  e attempt|enter|mid|leave|exit|rattempt|read|annotate|probe|gc   t thread   b build number   f program key
  mine/locked (inside the function: the global context is this definition / the build lock is held)
  raised, err, sha, lost (units of this function attached elsewhere)   ctx_none, lock_free, orphan, wrap (probe:
  SynthDef.wrap worked outside a build)   read: f = how:variant, raised, err
No verdicts here: TraceBuild.tla decides."""
import gc
import json
import logging
import os
import subprocess
import sys
import threading
import time

GRACE = 0.05
TIMEOUT = 60


def ev(**kw):
    d = dict(e='', t=0, b=0, f='', mine=0, locked=0, raised=0, err='', sha='', lost=0, ctx_none=0, lock_free=0,
             orphan=0, n=0, wrap=0)
    d.update(kw)
    return d


class YieldingLock:
    """the build lock with a scheduling point after every release: a thread blocked on the lock runs BEFORE the
    releasing thread continues.  Installed over main._def_build_lock (a module/class global, no source hook): it turns
    'B acquires the lock right after A released it, before A's next statement' from a rare OS coincidence into the
    schedule of every forced overlap - the window in which a context cleared after the release would hit B."""

    def __init__(self, real):
        self._real = real

    def acquire(self, blocking=True, timeout=-1):
        return self._real.acquire(blocking, timeout)

    def release(self):
        self._real.release()
        time.sleep(0.003)

    def locked(self):
        return self._real.locked()

    def __enter__(self):
        self._real.acquire()
        return True

    def __exit__(self, *a):
        self.release()


class Runner:
    def __init__(self, builder):
        self.b = builder
        self.main = builder._libsc3.main
        self.log = []
        self.mutex = threading.Lock()
        self.nb = 0
        self.threaded = False
        self.last_sd = {}
        self.desc = False         # also describe every finished definition (C02's concurrent section)
        self.recs = None          # keep the full build records
        self._tmp = None
        self.nfile = 0

    def emit(self, **kw):
        with self.mutex:
            self.log.append(ev(**kw))

    def build(self, t, prog, key, sync_at=None, on_sync=None, post=None):
        with self.mutex:
            self.nb += 1
            bno = self.nb
            self.log.append(ev(e='attempt', t=t, b=bno, f=key))
        name = prog['name']
        n = len(prog['ins'])

        def state():
            cur = self.main._current_synthdef
            mine = 1 if (cur is not None and getattr(cur, '_name', None) == name) else 0
            return dict(mine=mine, locked=1 if self.main._def_build_lock.locked() else 0)

        def hook(idx, ins):
            if idx == 0:
                self.emit(e='enter', t=t, b=bno, f=key, **state())
            if sync_at is not None and idx == sync_at and on_sync is not None:
                self.emit(e='mid', t=t, b=bno, f=key, **state())
                on_sync()
                self.emit(e='mid', t=t, b=bno, f=key, **state())
            if idx == n or idx == -1:       # end of the function body (normal, or about to raise)
                self.emit(e='leave', t=t, b=bno, f=key, **state())

        def post2(sd, data):
            self.last_sd[t] = (sd, prog, key)          # the finished definition object (for `annotate` steps)
            return post(sd, data) if post is not None else None

        try:
            rec = self.b.build(prog, hook=hook, post=post2, desc=self.desc)
        except Exception as e:
            # anything unexpected around a build is an observation (a build that did not deliver), never a harness crash
            rec = dict(raised=1, err='unexpected-' + type(e).__name__, stage='', sha='', lost=0)
        if self.recs is not None:
            with self.mutex:
                self.recs.append((prog, rec))
        self.emit(e='exit', t=t, b=bno, f=key, raised=rec['raised'], err=rec['err'] + ('@' + rec['stage'] if rec['stage'] else ''),
                  sha=rec['sha'], lost=rec.get('lost', 0))
        return rec

    def probe(self, t):
        p = self.b.probe_idle()
        self.emit(e='probe', t=t, ctx_none=p['ctx_none'], lock_free=p['lock_free'], orphan=p['orphan_owned'],
                  wrap=p['wrap'])

    # ---- the other users of the build lock / global context
    def mutate(self, data, s):
        var = s.get('variant', 'valid')
        mark = b'\x06SinOsc'
        at = data.find(mark)
        if var == 'trunc' or (var in ('badclass', 'badrate') and at < 0):
            return data[:len(data) * s.get('cut', 500) // 1000]
        if var == 'badclass':
            return data[:at] + b'\x06SinOsx' + data[at + 7:]
        if var == 'badrate':
            return data[:at + 7] + b'\x07' + data[at + 8:]
        if var == 'dupname':
            return data.replace(b'\x02kb', b'\x02ka', 1)
        return data

    def do_read(self, s, sd, data):
        import io
        import pathlib
        how = s['how']
        sdc = self.b.sdc
        b = self.mutate(data, s)
        try:
            if how == 'add':
                sd.add()
            elif how == 'store':
                sd.store(dir=self.tmpdir())
            elif how == 'new_from':
                sdc.SynthDesc.new_from(sd)
            elif how == 'read_stream':
                sdc.SynthDesc._read_stream(io.BytesIO(b))
            else:
                with self.mutex:
                    self.nfile += 1
                    nf = self.nfile
                path = pathlib.Path(self.tmpdir()) / ('f%d.scsyndef' % nf)
                path.write_bytes(b)
                if how == 'descread':
                    sdc.SynthDesc.read(path)
                else:
                    sdc.SynthDescLib.get_lib('default').read(path)
            return dict(raised=0, err='')
        except Exception as e:        # recorded; what must hold afterwards is the spec's business
            return dict(raised=1, err=type(e).__name__)

    def use(self, t, s):
        rec = self.build(t, s['prog'], s['key'], post=lambda sd, data: self.do_read(s, sd, data))
        out = rec.get('post') or dict(raised=2, err='not-built')
        self.emit(e='read', t=t, f=s['how'] + ':' + s.get('variant', 'valid'), raised=out['raised'], err=out['err'])

    def prebuild(self, t, progs):
        """definitions built before the threads start; their objects / bytes feed read-backs that RACE with builds"""
        self.pre = []
        for k, ent in enumerate(progs):
            box = {}
            self.build(t, ent['prog'], ent['key'], post=lambda sd, data: box.update(sd=sd, data=data) or dict(raised=0, err=''))
            self.pre.append(box)

    def readback(self, t, s):
        """a read-back on its own (no build in this thread): announced, so that a builder can wait for it"""
        box = self.pre[s['pre']] if s['pre'] < len(self.pre) else {}
        self.emit(e='rattempt', t=t, f=s['how'])
        if 'sd' in box:
            out = self.do_read(s, box['sd'], box['data'])
        else:
            out = dict(raised=2, err='not-built')
        self.emit(e='read', t=t, f=s['how'] + ':' + s.get('variant', 'valid'), raised=out['raised'], err=out['err'])

    def annotate(self, t, s):
        """mutate, in place, the dictionaries a FINISHED definition exposes through its public `variants` / `metadata`
        properties (a variant for one of its own controls, a metadata note, a spec): legal use of the library that
        must not reach any other definition"""
        ent = self.last_sd.get(t)
        if ent is None:
            return
        sd, prog, key = ent
        err = ''
        try:
            if prog['ctl']:
                c = prog['ctl'][s.get('n', 0) % len(prog['ctl'])]
                sd.variants['v%d' % (s.get('n', 0) % 7)] = {c['n']: (s.get('n', 0) % 5) + 1}
            sd.metadata['note%d' % (s.get('n', 0) % 3)] = s.get('n', 0)
            if prog['ctl']:
                from sc3.synth.spec import spec
                sd.metadata.setdefault('specs', {})[prog['ctl'][0]['n']] = spec('freq')
        except Exception as e:
            err = type(e).__name__
        self.emit(e='annotate', t=t, f=key, raised=1 if err else 0, err=err)

    def tmpdir(self):
        import tempfile
        if self._tmp is None:
            self._tmp = tempfile.mkdtemp(prefix='c20_', dir='.')
        return self._tmp

    def steps(self, t, steps, sync_at=None, on_sync=None, started=None):
        first = True
        for s in steps:
            if s['k'] == 'build':
                if first and started is not None:
                    pass
                self.build(t, s['prog'], s['key'], sync_at if first else None, on_sync if first else None)
                first = False
            elif s['k'] == 'use':
                self.use(t, s)
            elif s['k'] == 'readback':
                self.readback(t, s)
            elif s['k'] == 'annotate':
                self.annotate(t, s)
            elif s['k'] == 'probe':
                # a probe takes the lock for an instant and creates a unit: only meaningful (and only harmless)
                # while no other thread can be building, so threaded scenarios probe once, after the join
                if not self.threaded:
                    self.probe(t)
            elif s['k'] == 'junk':
                junk = [dict(a=i, b=[i] * (i % 7)) for i in range(s['n'])]
                del junk
            elif s['k'] == 'desc':
                # earlier use of the library: a description read back from bytes (takes the build lock too)
                import io
                r = self.b.build(s['prog'], keep=True)
                if not r['raised'] and 'bytes_hex' in r:
                    self.b.sdc.SynthDesc._read_stream(io.BytesIO(bytes.fromhex(r['bytes_hex'])))
            elif s['k'] == 'gccollect':
                gc.collect()


def run_threads(runner, sc):
    runner.threaded = True
    nt = len(sc['threads'])
    if sc.get('pre'):
        runner.prebuild(nt + 1, sc['pre'])
    go = [threading.Event() for _ in range(nt)]
    attempted = [threading.Event() for _ in range(nt)]
    waits = {}        # thread -> (k, other)
    released = set()
    for ta, k, tb in sc.get('sync', []):
        waits[ta] = (k, tb)
        released.add(tb)
    errors = []

    def body(t):
        try:
            if t in released:
                if not go[t].wait(TIMEOUT):
                    errors.append('thread %d never released' % t)
                    return
            orig_emit = runner.emit

            def on_sync():
                k, tb = waits[t]
                go[tb].set()
                # wait until tb announced its attempt, then give it time to block on the lock
                deadline = time.time() + TIMEOUT
                while time.time() < deadline:
                    with runner.mutex:
                        if any(e['e'] in ('attempt', 'rattempt') and e['t'] == tb + 1 for e in runner.log):
                            break
                    time.sleep(0.002)
                time.sleep(GRACE)
            if t in waits:
                runner.steps(t + 1, sc['threads'][t], waits[t][0], on_sync)
            else:
                runner.steps(t + 1, sc['threads'][t])
        except Exception as e:        # machinery problem, not an observation
            errors.append('thread %d: %r' % (t, e))
        finally:
            # never leave a waiting thread behind
            if t in waits:
                go[waits[t][1]].set()

    ths = [threading.Thread(target=body, args=(t,), daemon=True) for t in range(nt)]
    for th in ths:
        th.start()
    for th in ths:
        th.join(TIMEOUT * 2)
    hung = [i for i, th in enumerate(ths) if th.is_alive()]
    if hung:
        runner.emit(e='hang', t=hung[0] + 1)
    else:
        runner.probe(1)
    if errors:
        raise RuntimeError('; '.join(errors))


def gc_child(n, prog_path):
    """repeated builds with the definition bytes taken each time, garbage collected every 50 builds"""
    import sc3
    logging.disable(logging.WARNING)
    sc3.init('nrt')
    from harness import sgbuild
    b = sgbuild.Builder()
    prog = json.load(open(prog_path))
    done = 0
    for i in range(n):
        rec = b.build(prog, gc_safe=False)
        if rec['raised']:
            break
        done += 1
        if i % 50 == 0:
            gc.collect()
            sys.stdout.write('%d\n' % done)
            sys.stdout.flush()
    gc.collect()
    sys.stdout.write('%d\n' % done)
    sys.stdout.flush()


def main():
    if sys.argv[1] == '--gc-child':
        gc_child(int(sys.argv[2]), sys.argv[3])
        return
    inp = json.load(open(sys.argv[1]))
    import sc3
    assert os.path.realpath(sc3.__file__).startswith(os.path.realpath(os.environ.get('SC3_REPO', '/repo'))), sc3.__file__
    logging.disable(logging.WARNING)
    sc3.init(os.environ.get('VERIF_MODE', 'nrt'))
    from harness import sgbuild
    b = sgbuild.Builder()
    main_ = b._libsc3.main
    main_._def_build_lock = YieldingLock(main_._def_build_lock)
    out = []
    for sc in inp['scenarios']:
        r = Runner(b)
        if sc['kind'] == 'seq':
            r.steps(1, sc['steps'])
        elif sc['kind'] == 'threads':
            run_threads(r, sc)
        elif sc['kind'] == 'repeat':
            # every program built n times in a row in this process while unrelated objects of random sizes are allocated
            # and KEPT between the builds, so that the unit objects of each rebuild land on other addresses (object
            # addresses order id-hashed sets); one comparison event per build, Deterministic decides
            import random
            rnd = random.Random(sc.get('seed', 0))
            keep = []
            for k, prog in enumerate(sc['progs']):
                for j in range(sc['n']):
                    keep.append([object() for _ in range(rnd.randrange(1, 60))])
                    try:
                        rec = b.build(prog)
                    except Exception as e:
                        rec = dict(raised=1, err='unexpected-' + type(e).__name__, sha='')
                    keep.append(rec)
                    r.emit(e='det', f=sc['keys'][k], raised=rec['raised'], err='rebuild %d' % j, sha=rec['sha'])
                if len(keep) > 4000:
                    del keep[:2000]
        elif sc['kind'] == 'gc':
            pp = sys.argv[2] + '.prog.json'
            json.dump(sc['prog'], open(pp, 'w'))
            p = subprocess.run([sys.executable, os.path.abspath(__file__), '--gc-child', str(sc['n']), pp],
                               stdout=subprocess.PIPE, stderr=subprocess.PIPE, text=True, timeout=600,
                               env=os.environ)
            os.unlink(pp)
            lines = [x for x in p.stdout.split() if x.isdigit()]
            done = int(lines[-1]) if lines else 0
            r.emit(e='gc', n=sc['n'], b=done, raised=0 if p.returncode == 0 else 1,
                   err=('rc=%d ' % p.returncode) + p.stderr.strip().splitlines()[-1][:120] if p.returncode else '')
        if r._tmp is not None:
            import shutil
            shutil.rmtree(r._tmp, ignore_errors=True)
        out.append(dict(id=sc['id'], kind=sc['kind'], ev=r.log))
    json.dump({'traces': out}, open(sys.argv[2], 'w'))
    sys.stdout.flush()
    os._exit(0)       # RT mode leaves non-daemon threads behind


if __name__ == '__main__':
    main()
