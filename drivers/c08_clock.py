"""Driver for C08 (and the RT side of other time properties): runs *programs* of scheduling calls on
the real SystemClock / AppClock / TempoClock under the controlled scheduler (harness/cosched.py) and
records the event trace.  No verdicts: the trace goes to TLC (TraceClock.tla).

Input : {"programs": [program, ...]}
program: {"id": int, "tempo": {"t1": [num, den], ...}, "tasks": {name: {"kind": "fn"|"rt", "script": [step,...]}},
          "threads": [[op,...], ...]   (thread 0 = the main thread, the others are spawned threads),
          "horizon": units, "strategy": {"kind": "random"|"pct"|"choice"|"fifo", "seed": n, "choices": [...]}}
op   : ["sched", clock, task, delta] | ["sched_abs", clock, task, time] | ["clear", clock] | ["sleep", d]
       | ["tempo", clock, num, den] | ["stop", clock]                    (all times in units of 1/1024 s / beat)
       | ["cset", cv] | ["signal", cv] | ["unhang", cv] | ["fset", cv]   (program["conds"]: {cv: "cond"|"fv"})
step : {"do": [op, ...], "res": ["ret", delta] | ["none"] | ["raise"] | ["stop"] | ["other"] | ["wait", cv]}
A "cond" is a Condition whose test is a callable reading a flag and then offering a preemption point (the window
between evaluating the test and registering the routine); ["cset", cv] makes the flag true; an "fv" is a FlowVar,
["fset", cv] binds it.  ["wait", cv] (routine tasks) = yield from cond.wait() / flowvar.value.
Output: {"traces": [{"id", "ev": [...], "clocks": {...}, "threads": {...}, "branch": [...]}], "remaining": [ids]}
"""
import json
import os
import sys

from harness import cosched

U = 1024          # program time unit: 1/1024 s (or beat)
TU = 1 << 20       # trace time unit: 2^-20
K = TU // U


class PointedHeapq:
    """stands in for the heapq module inside sc3.base._taskq: a preemption point after every heap operation, so that
    a thread which does not need the lock the caller holds can run in the middle of a TaskQueue method (programs
    with "qpoints")"""

    def __init__(self, S):
        import heapq
        self._h = heapq
        self._S = S
        self.on = False

    def _hit(self):
        if self.on and self._S.cur is not self._S.main:
            self._S.point()

    def heappush(self, heap, item):
        self._h.heappush(heap, item)
        self._hit()

    def heappop(self, heap):
        v = self._h.heappop(heap)
        self._hit()
        return v

    def __getattr__(self, name):
        return getattr(self._h, name)


PH = None


def main_():
    global PH
    inp = json.load(open(sys.argv[1]))
    S = cosched.install(cosched.FifoStrategy(), max_steps=inp.get('max_steps', 400_000))
    import sc3
    sc3.init('rt', 'CRITICAL')
    import sc3.base._taskq as _tq
    PH = PointedHeapq(S)
    _tq.heapq = PH
    assert os.path.realpath(sc3.__file__).startswith(os.path.realpath(os.environ.get('SC3_REPO', '/repo'))), sc3.__file__
    from sc3.base.main import main
    from sc3.base import clock as clk
    from sc3.base import stream as stm
    from sc3.base import functions as fn
    import logging
    logging.disable(logging.CRITICAL)

    traces = []
    remaining = []
    progs = inp['programs']
    for pi, prog in enumerate(progs):
        st = prog.get('strategy', {})
        if st.get('kind') == 'dfs':
            # stateless bounded DFS over scheduling choices: one trace per explored schedule
            choices, n = [], 0
            depth = st.get('depth', 12)
            while n < st.get('max', 200):
                p2 = dict(prog, id=prog['id'] + n,
                          strategy=dict(kind='choice', choices=choices, lates=st.get('lates', (0,))))
                tr = run_program(S, p2, main, clk, stm, fn)
                tr['choices'] = list(choices)
                traces.append(tr)
                n += 1
                if tr.get('broken'):
                    break
                br = tr['branch'][:depth]
                full = (choices + [0] * len(br))[:len(br)]
                i = len(full) - 1
                while i >= 0 and full[i] + 1 >= br[i]:
                    i -= 1
                if i < 0:
                    break
                choices = full[:i] + [full[i] + 1]
        else:
            tr = run_program(S, prog, main, clk, stm, fn)
            traces.append(tr)
        if tr.get('broken'):
            remaining = [p['id'] for p in progs[pi + 1:]]
            break
    json.dump({'traces': traces, 'remaining': remaining}, open(sys.argv[2], 'w'))
    sys.stdout.flush()
    os._exit(0)


class NonDyadic(Exception):
    """a time finer than the trace unit: the execution cannot be written down exactly and is skipped"""


def make_strategy(st):
    k = st.get('kind', 'random')
    if k == 'random':
        return cosched.RandomStrategy(st.get('seed', 0), p_stay=st.get('p_stay', 0.0))
    if k == 'pct':
        return cosched.PriorityStrategy(st.get('seed', 0), depth=st.get('depth', 3), horizon=st.get('span', 300))
    if k == 'choice':
        return cosched.ChoiceStrategy(st.get('choices', ()), lates=tuple(x / U for x in st.get('lates', (0,))))
    return cosched.FifoStrategy()


def run_program(S, prog, main, clk, stm, fn):
    S.strategy = cosched.FifoStrategy()
    S.log_on = False
    # fresh state: nothing pending on the singleton clocks
    clk.SystemClock.clear()
    clk.AppClock.clear()
    S.settle(horizon=S.now)
    S.log = []
    base_now = S.now
    base_el = main.elapsed_time()
    out = dict(id=prog['id'], broken=False)

    def rel(x):
        v = (x - base_el) * TU
        iv = int(round(v))
        if iv != v:
            out['nondyadic'] = 'time %r' % x       # finer than the trace unit: this execution is skipped
            return 0
        return iv

    def reln(x):
        v = (x - base_now) * TU
        iv = int(round(v))
        if iv != v:
            out['nondyadic'] = 'now %r' % x
            return 0
        return iv

    clocks = {'sys': clk.SystemClock, 'app': clk.AppClock}
    PH.on = bool(prog.get('qpoints'))
    S.log_on = True
    S.strategy = make_strategy(prog.get('strategy', {}))
    tempo_threads = {}
    try:
        for name, (num, den) in sorted(prog.get('tempo', {}).items()):
            S.emit('mkclock', clock=name, num=num, den=den)
            c = clk.TempoClock(num / den)
            clocks[name] = c
            tempo_threads[name] = c._thread._m.name
        cname = {id(v): k for k, v in clocks.items()}
        tasks = {}
        counts = {}
        stopped_calls = set()

        def do_ops(ops, inner):
            for op in ops:
                do_op(op, inner)

        def do_op(op, inner):
            k = op[0]
            if k == 'sleep':
                cosched._FakeTime.sleep(op[1] / U)
                return
            if k == 'cset':
                flags[op[1]] = True
                S.emit('cset', cv=op[1])
                return
            if k in ('signal', 'unhang', 'fset'):
                S.emit('call', api=k, cv=op[1], inner=inner)
                if k == 'signal':
                    (conds[op[1]].condition if isinstance(conds[op[1]], stm.FlowVar) else conds[op[1]]).signal()
                elif k == 'unhang':
                    (conds[op[1]].condition if isinstance(conds[op[1]], stm.FlowVar) else conds[op[1]]).unhang()
                else:
                    conds[op[1]].value = 1
                S.emit('ret', api=k, cv=op[1])
                return
            c = clocks[op[1]] if k != 'osc' else None
            try:
                if k == 'sched' and op[3] == 'inf':
                    S.emit('call', api='sched', clock=op[1], task=op[2], arg=1 << 30, inner=inner)
                    c.sched(float('inf'), tasks[op[2]])
                elif k == 'sched':
                    S.emit('call', api='sched', clock=op[1], task=op[2], arg=op[3] * K, inner=inner)
                    c.sched(op[3] / U, tasks[op[2]])
                elif k == 'sched_abs':
                    # absolute times are relative to the program start (seconds for sys/app, beats for tempo clocks
                    # created at the program start with beats 0)
                    S.emit('call', api='sched_abs', clock=op[1], task=op[2], arg=op[3] * K, inner=inner)
                    if op[1] == 'sys':
                        c.sched_abs(base_el + op[3] / U, tasks[op[2]])
                    else:
                        c.sched_abs(op[3] / U, tasks[op[2]])
                elif k == 'clear':
                    S.emit('call', api='clear', clock=op[1], task='', arg=0, inner=inner)
                    c.clear()
                elif k == 'tempo':
                    S.emit('call', api='tempo', clock=op[1], task='', arg=op[2], arg2=op[3], inner=inner)
                    # The tempo setter reads the caller's logical time outside any critical section; from a plain
                    # thread that read races with clock wake-ups (recorded as a finding under C07/C05).  Here the
                    # caller holds the library lock, which makes the change atomic, as it is inside tasks.
                    with main._main_lock:
                        c.tempo = op[2] / op[3]
                elif k == 'stop':
                    S.emit('call', api='stop', clock=op[1], task='', arg=0, inner=inner)
                    c.stop()
                elif k == 'osc':
                    # an incoming datagram: the receive thread schedules its dispatch on SystemClock with delay 0
                    S.emit('call', api='sched', clock='sys', task=op[2], arg=0, inner=inner)
                    a = op[2].encode()
                    dg = a + b'\0' * (4 - len(a) % 4) + b',\0\0\0'
                    main._osc_interface._handle_request(dg, ('127.0.0.1', 57110))
                else:
                    raise AssertionError(op)

            except clk.ClockError:
                pass        # a stopped clock refuses the call
            S.emit('ret', api=k, clock=op[1] if k != 'osc' else 'sys')

        def result(name, res):
            k = res[0]
            if k == 'ret':
                return res[1] / U
            if k == 'none':
                return None
            if k == 'other':
                return 'x'
            if k == 'raise':
                raise RuntimeError('scripted failure of task ' + name)
            if k == 'stop':
                raise stm.StopStream
            raise AssertionError(res)

        def begin(name, clock):
            k = counts.get(name, 0)
            counts[name] = k + 1
            cn = cname.get(id(clock), '?')
            lt = main.current_tt._seconds
            ev = dict(clock=cn, task=name, k=k, lt=rel(lt))
            if cn not in ('sys', 'app'):
                b = clock.beats
                v = b * TU
                if v != int(v):
                    out['nondyadic'] = 'beats %r' % b
                    v = 0
                ev['lb'] = int(v)
            S.emit('task_begin', **ev)
            # a preemption point INSIDE the clock's critical section: threads that are not blocked on the library
            # lock (i.e. running code outside any critical section) may run here, as with real threads
            S.point()
            return k

        def mk_fn(name, script):
            def f(me, clock):
                k = begin(name, clock)
                step = script[k] if k < len(script) else {'do': [], 'res': ['none']}
                try:
                    do_ops(step.get('do', []), True)
                finally:
                    S.emit('task_end', task=name, k=k, res=step['res'][0],
                           val=step['res'][1] * K if len(step['res']) > 1 else 0)
                return result(name, step['res'])
            return fn.Function(f)

        def mk_rt(name, script):
            def g(inval):
                me, clock = inval
                i = 0
                while True:
                    k = begin(name, clock)
                    step = script[k] if k < len(script) else {'do': [], 'res': ['stop']}
                    do_ops(step.get('do', []), True)
                    if step['res'][0] == 'wait':
                        c = conds[step['res'][1]]
                        gen = c.value if isinstance(c, stm.FlowVar) else c.wait()
                        v = next(gen)        # evaluates the test and registers the routine, as `yield from` would
                        S.emit('task_end', task=name, k=k, res='park' if v == 'hang' else 'pass', val=0, cv=step['res'][1])
                        me, clock = yield v
                        continue
                    S.emit('task_end', task=name, k=k, res=step['res'][0],
                           val=step['res'][1] * K if len(step['res']) > 1 else 0)
                    r = step['res']
                    if r[0] == 'stop':
                        return
                    me, clock = yield result(name, r)
            return stm.Routine(g)

        conds = {}
        flags = {}
        for cv, kind in prog.get('conds', {}).items():
            if kind == 'fv':
                conds[cv] = stm.FlowVar()
            else:
                flags[cv] = False

                def test(cv=cv):
                    v = flags[cv]
                    S.point()       # between evaluating the test and acting on it
                    return v
                conds[cv] = stm.Condition(test)
        for name, t in prog['tasks'].items():
            tasks[name] = (mk_rt if t.get('kind') == 'rt' else mk_fn)(name, t['script'])

        def on_osc(msg, time, addr, port):
            if msg[0] in oscseen:
                return
            oscseen.add(msg[0])
            S.emit('task_begin', clock='sys', task=msg[0], k=0, lt=rel(main.current_tt._seconds))
            S.emit('task_end', task=msg[0], k=0, res='none', val=0)
        oscseen = set()
        main.add_osc_recv_func(on_osc)
        threads = prog['threads']
        spawned = []
        for i, ops in enumerate(threads[1:]):
            spawned.append(S.spawn(lambda ops=ops: do_ops(ops, False), 'user%d' % (i + 1)))
        do_ops(threads[0], False)
        S.settle(horizon=base_now + prog['horizon'] / U)
        main.remove_osc_recv_func(on_osc)
        alive = {k: bool(getattr(c, '_thread', None) is not None and c._thread.is_alive()) for k, c in clocks.items()}
        S.emit('end', arg=prog['horizon'] * K, alive=[k for k, v in sorted(alive.items()) if v], dead=[k for k, v in sorted(alive.items()) if not v],
               users_done=all(not t.is_alive() for t in spawned))
        if not (alive['sys'] and alive['app']):
            out['broken'] = True
    except (cosched.Deadlock, cosched.StepLimit) as e:
        S.log_on = True
        S.emit('abort', why=type(e).__name__)
        out['broken'] = True
        out['abort'] = str(e)[:300]
    S.log_on = False
    PH.on = False
    # convert the log
    names = {'sys': clk.SystemClock._thread._m.name, 'app': clk.AppClock._thread._m.name}
    names.update(tempo_threads)
    ev = []
    try:
        ev = convert(S.log, reln)
    except NonDyadic as e:
        out['nondyadic'] = str(e)
    out['ev'] = ev
    out['clockthread'] = {v: k for k, v in names.items()}
    st = S.strategy
    out['branch'] = getattr(st, 'branch', [])
    tidy(S, out, tempo_threads, clocks, cosched)
    return out


def tidy(S, out, tempo_threads, clocks, cosched):
    # stop the tempo clocks of this program
    if not out['broken']:
        S.strategy = cosched.FifoStrategy()
        for name in tempo_threads:
            c = clocks[name]
            try:
                if c.running():
                    c.stop()
            except Exception:
                pass
        S.settle(horizon=S.now)


def convert(log, reln):
    ev = []
    for e in log:
        d = dict(e)
        d.pop('i', None)
        d.pop('seq', None)
        d['now'] = reln(e['now'])
        if 'deadline' in d:
            d['deadline'] = -1 if d['deadline'] is None else reln(d['deadline'])
        if 'timeout' in d:
            d.pop('timeout')
        ev.append(norm(d))
    return ev


KEYS = dict(th='', op='', now=0, api='', clock='', task='', arg=0, arg2=1, inner=False, lock='', cond='',
            deadline=-1, notified=False, woken=[], k=0, lt=0, lb=0, res='', val=0, child='', label='', cv='',
            alive=[], dead=[], users_done=True, num=1, den=1, why='')


def norm(d):
    """uniform record shape for TLC (every event has every field)"""
    o = dict(KEYS)
    for k, v in d.items():
        if k in o:
            o[k] = v
    return o


if __name__ == '__main__':
    main_()
