"""Driver for C18: run (a) the address-pattern matcher used by the matching dispatcher, (b) histories
of responder operations and received datagrams on real OscFunc objects in RT mode, (c) histories on
the real SystemAction / ServerAction / NotificationCenter registries, and record what happened.
Input : {"cases": [{"id", "kind": "match" | "dispatch" | "reg", ...}]}   Output: {"traces": [...]}
No verdicts here (spec/TraceOscMatch.tla, TraceDispatch.tla, TraceRegistries.tla decide)."""
import itertools
import json
import os
import socket
import sys

sys.path.insert(0, os.path.dirname(os.path.dirname(os.path.abspath(__file__))))
from harness import oscrt  # noqa: E402

HOSTS = {1: '127.0.0.1', 2: '127.0.0.2', 3: '127.0.0.3'}
HOSTID = {v: k for k, v in HOSTS.items()}


# ------------------------------------------------------------------ matcher
_universe = {}


def universe(maxa):
    if maxa not in _universe:
        out = []
        for n in range(maxa + 1):
            for t in itertools.product('ab/', repeat=n):
                out.append('/' + ''.join(t))
        _universe[maxa] = out
    return _universe[maxa]


def do_match(c):
    from sc3.base import responders
    f = responders._match_osc_address_pattern
    p = bytes(c['p']).decode('latin-1')
    hits, raised = [], []
    for a in universe(c['maxa']):
        try:
            if f(p, a):
                hits.append(list(a.encode('latin-1')))
        except Exception as e:
            if not raised:
                raised.append(type(e).__name__)
    return {'id': c['id'], 'p': c['p'], 'maxa': c['maxa'], 'hits': hits, 'raised': raised}


# ------------------------------------------------------------------ dispatch
class Env:
    def __init__(self, main):
        from sc3.base._oscinterface import OscInterface
        from sc3.base.clock import SystemClock
        self.main = main
        self.SystemClock = SystemClock
        s = socket.socket(socket.AF_INET, socket.SOCK_DGRAM)
        s.bind(('127.0.0.1', 0))
        self.extra_port = s.getsockname()[1]
        s.close()
        main.open_udp_port(self.extra_port)
        self.ifaces = {1: main._osc_interface,
                       2: OscInterface._local_endpoints[(socket.gethostbyname('localhost'), self.extra_port)]}
        self.ports = {1: main._osc_interface.port, 2: self.extra_port}
        self.via = {v: k for k, v in self.ports.items()}
        self.udp = None

    def udp_path(self):
        if self.udp is None:
            self.udp = oscrt.UdpPath(self.main, HOSTS, dict(self.ports))
        return self.udp


def tok_value(tok):
    if tok['t'] == 'i':
        return tok['hi'] * 65536 + tok['lo']
    if tok['t'] == 's':
        return bytes(tok['b']).decode('utf-8')
    if tok['t'] == 'b':
        return bytes(tok['b'])
    raise AssertionError(tok)


def template(tmpl):
    if not tmpl:
        return None
    out = []
    for it in tmpl:
        if it['k'] == 'any':
            out.append(None)
        elif it['k'] == 'eq':
            out.append(tok_value(it['v']))
        else:
            out.append(lambda x, n=it['n']: isinstance(x, int) and x > n)
    return out


def do_dispatch(env, c):
    from sc3.base.responders import OscFunc
    from sc3.base.netaddr import NetAddr
    from sc3.base.systemactions import CmdPeriod
    main = env.main
    udp = env.udp_path() if c.get('udp') else None
    if udp is not None and udp.dead:
        udp = None      # an earlier history killed the library's receive thread: deliver directly instead
    for f in list(OscFunc._all_func_proxies):
        f.free()
    # isolation between histories: whatever an earlier history left registered in the dispatchers (only a
    # defective free()/disable() does) must not take part in this one
    for disp in (OscFunc._default_dispatcher, OscFunc._default_matching_dispatcher):
        if disp.active or disp.wrapped_funcs:
            disp.active.clear()
            disp.wrapped_funcs.clear()
    CmdPeriod.free_servers = False
    off = int(env.SystemClock._elapsed_osc_offset)
    log = []
    rs = {}

    flood = []
    deliveries = []      # the NetAddr object made for each dispatched message (one per message): its identity numbers the delivery

    def act(a):
        r = rs.get(a['i'])
        if r is not None:
            getattr(r, a['op'])()       # free / disable / enable, from inside the callback

    def delivery_context():
        """(time, addr, recv_port) of the message being dispatched, read from the library's own dispatch frame
        (OscInterface._msg_dispatch.sched_func) - a callback that declares fewer than four parameters is not
        handed them, but the observation still needs them"""
        f = sys._getframe(1)
        while f is not None:
            if f.f_code.co_name == 'sched_func' and 'addr' in f.f_locals and 'self' in f.f_locals:
                return f.f_locals['time'], f.f_locals['addr'], f.f_locals['self'].port
            f = f.f_back
        return None

    def callback(i, fn, beh):
        """logging callback scripted by beh: declares beh['ar'] parameters (1..4: a prefix of msg, time, addr,
        recv_port; 0: *args), does beh['acts'], raises on the beh['rk']-th invocation"""
        count = [0]

        def body(*got):
            if len(log) >= 300:     # runaway delivery (responders multiplying): stop feeding it, record 'flood'
                flood.append(1)
                return
            count[0] += 1
            ctx = delivery_context()
            msg = got[0]
            # what the function was handed wins; what it was not handed comes from the dispatch frame
            vals = list(ctx) if ctx is not None else [0.0, None, 0]
            for k, x in enumerate(got[1:4]):
                vals[k] = x
            time, addr, port = vals
            addr_id = ctx[1] if ctx is not None else addr
            if not any(addr_id is x for x in deliveries):
                deliveries.append(addr_id)
            d = 1 + [k for k, x in enumerate(deliveries) if x is addr_id][0]
            toks = []
            for p in msg[1:]:
                oscrt.project_param(p, toks)
            tm = (int(time * 2 ** 32) + off) % 2 ** 64
            log.append({'r': i, 'fn': fn, 'a': list(msg[0].encode('utf-8')), 'args': toks,
                        'src': {'h': HOSTID.get(addr.hostname, 0),
                                'p': udp.sym.get((addr.hostname, addr.port), addr.port) if udp else env.via.get(addr.port, addr.port)},
                        'via': env.via.get(port, 0),
                        'tm': list(tm.to_bytes(8, 'big')), 'd': d, 'n': len(got)})
            for a in beh['acts']:
                act(a)
            if beh['rk'] == count[0]:
                raise RuntimeError('scripted callback fault (responder %d, invocation %d)' % (i, count[0]))
        ar = beh.get('ar', 4)
        if ar == 1:
            return lambda msg: body(msg)
        if ar == 2:
            return lambda msg, time: body(msg, time)
        if ar == 3:
            return lambda msg, time, addr: body(msg, time, addr)
        if ar == 0:
            return lambda *args: body(*args)
        return lambda msg, time, addr, port: body(msg, time, addr, port)

    ev = []
    for e in c['ev']:
        op = e['op']
        rec = dict(e)
        try:
            if op == 'create':
                i = len(rs) + 1
                sp = e['src']['p']
                if udp and sp:      # symbolic sender port -> the port of the real sending socket
                    sp = udp.real_port(e['src']['h'], sp)
                src = None if e['src']['h'] == 0 else NetAddr(HOSTS[e['src']['h']], sp or None)
                path = bytes(e['path']).decode('utf-8')
                kw = dict(arg_template=template(e['tmpl']))
                rp = env.ports[e['rport']] if e['rport'] else None
                if e['kind'] == 'matching':
                    r = OscFunc.matching(callback(i, 0, e['beh']), path, src, rp, **kw)
                else:
                    r = OscFunc(callback(i, 0, e['beh']), path, src, rp, **kw)
                rs[i] = r
                if e.get('os'):
                    r.one_shot()
            elif op == 'enable':
                rs[e['i']].enable()
            elif op == 'disable':
                rs[e['i']].disable()
            elif op == 'free':
                rs[e['i']].free()
            elif op == 'oneshot':
                rs[e['i']].one_shot()
            elif op == 'setfunc':
                rs[e['i']].func = callback(e['i'], e['fn'], e['beh'])
            elif op == 'setperm':
                rs[e['i']].permanent = bool(e['b'])
            elif op == 'cmdperiod':
                CmdPeriod.run()
            elif op == 'recv':
                if 'dg' in e:
                    dg = bytes(e['dg'])
                else:       # abstract message / bundle: encode with the real encoder
                    v = e['v']
                    py = oscrt.realise(v)
                    oi = main._osc_interface
                    dg = bytes((oi._build_msg(0.0, py) if v['t'] == 'm' else oi._build_bundle(0.0, py)).dgram)
                del log[:]
                del deliveries[:]
                del flood[:]
                if udp:
                    out = udp.deliver(dg, (e['src']['h'], e['src']['p']), 20.0, port=env.ports[e['via']])
                else:
                    out = oscrt.deliver(main, dg, (HOSTS[e['src']['h']], env.ports.get(e['src']['p'], e['src']['p'])),
                                        iface=env.ifaces[e['via']])
                if flood and out == 'ok':
                    out = 'flood'
                rec = {'op': 'recv', 'dg': list(dg), 'src': e['src'], 'via': e['via'], 'out': out, 'log': list(log),
                       'off': list(off.to_bytes(8, 'big'))}
            else:
                raise AssertionError(op)
        except AssertionError:
            raise
        except Exception as ex:     # an operation raising is recorded; the trace spec ignores `exc`
            rec['exc'] = type(ex).__name__
        ev.append(rec)
    for f in list(OscFunc._all_func_proxies):
        f.free()
    for r in rs.values():
        if r.enabled:
            r.disable()
    return {'id': c['id'], 'ev': ev}


# ------------------------------------------------------------------ registries
class Obj:
    def __init__(self, name):
        self.name = name


def do_reg(env, c):
    from sc3.base import systemactions as sac
    from sc3.base.model import NotificationCenter
    from sc3.synth.server import Server
    sac.CmdPeriod.free_servers = False
    syscls = {'StartUp': sac.StartUp, 'ShutDown': sac.ShutDown, 'CmdPeriod': sac.CmdPeriod}
    srvcls = {'ServerBoot': sac.ServerBoot, 'ServerQuit': sac.ServerQuit, 'ServerTree': sac.ServerTree}
    saved = {k: dict(v._actions) for k, v in syscls.items()}
    saved_srv = {k: dict(v._servers) for k, v in srvcls.items()}
    for v in syscls.values():
        v.remove_all()
    for v in srvcls.values():
        v.remove_all()
    NotificationCenter.clear()
    keys = {'s1': Server.default, 's2': Obj('s2'), 'default': 'default', 'all': 'all'}
    keyname = {id(v): k for k, v in keys.items()}
    objs = {n: Obj(n) for n in ('o1', 'o2', 'l1', 'l2', 'l3')}
    log = []
    beh = c['beh']
    sysfuncs = {}

    def sysfunc(cls, a):
        if (cls, a) not in sysfuncs:
            def f(arg=None, _a=a, _cls=cls):
                log.append({'a': _a, 'arg': -1 if arg is None else arg})
                b = beh.get(_a, {'b': 'log'})
                if b['b'] == 'rm':
                    syscls[_cls].remove(sysfunc(_cls, b['x']))
                elif b['b'] == 'add':
                    syscls[_cls].add(sysfunc(_cls, b['x']), 0)
            sysfuncs[(cls, a)] = f
        return sysfuncs[(cls, a)]

    srvfuncs = {}

    def srvfunc(cls, key, a):
        if (cls, key, a) not in srvfuncs:
            def f(server, arg=None, _a=a, _g=key):
                log.append({'g': _g, 'a': _a, 'arg': -1 if arg is None else arg, 'srv': keyname.get(id(server), '?')})
            srvfuncs[(cls, key, a)] = f
        return srvfuncs[(cls, key, a)]

    def ncact(act):
        def f(obj, msg, listener, arg=None):
            log.append({'l': listener.name, 'act': act, 'obj': obj.name, 'msg': msg, 'arg': -1 if arg is None else arg})
        return f

    ev = []
    for e in c['ev']:
        op = e['op']
        rec = dict(e)
        del log[:]
        out = 'ok'
        try:
            if op == 'sys_add':
                syscls[e['cls']].add(sysfunc(e['cls'], e['a']), e['arg'])
            elif op == 'sys_remove':
                syscls[e['cls']].remove(sysfunc(e['cls'], e['a']))
            elif op == 'sys_remove_all':
                syscls[e['cls']].remove_all()
            elif op == 'sys_run':
                syscls[e['cls']].run()
            elif op == 'srv_add':
                srvcls[e['cls']].add(keys[e['key']], srvfunc(e['cls'], e['key'], e['a']), e['arg'])
            elif op == 'srv_remove':
                srvcls[e['cls']].remove(keys[e['key']], srvfunc(e['cls'], e['key'], e['a']))
            elif op == 'srv_remove_server':
                srvcls[e['cls']].remove_server(keys[e['key']])
            elif op == 'srv_remove_all':
                srvcls[e['cls']].remove_all()
            elif op == 'srv_run':
                srvcls[e['cls']].run(keys[e['server']])
            elif op == 'nc_register':
                reg = NotificationCenter.register_one_shot if e['once'] else NotificationCenter.register
                reg(objs[e['obj']], e['msg'], objs[e['l']], ncact(e['act']))
            elif op == 'nc_unregister':
                NotificationCenter.unregister(objs[e['obj']], e['msg'] or None, objs[e['l']] if e['l'] else None)
            elif op == 'nc_clear':
                NotificationCenter.clear()
            elif op == 'nc_notify':
                NotificationCenter.notify(objs[e['obj']], e['msg'], e['arg'])
            else:
                raise AssertionError(op)
        except AssertionError:
            raise
        except Exception as ex:
            out = 'raise:' + type(ex).__name__
        rec['out'] = out
        if op in ('sys_run', 'srv_run', 'nc_notify'):
            rec['log'] = list(log)
        ev.append(rec)
    for k, v in syscls.items():
        v._actions = saved[k]
    for k, v in srvcls.items():
        v._servers = saved_srv[k]
    NotificationCenter.clear()
    return {'id': c['id'], 'beh': beh, 'ev': ev}


def main_():
    inp = json.load(open(sys.argv[1]))
    main = oscrt.init_rt()
    env = None
    out = []
    prog = os.environ.get('VERIF_PROGRESS')
    for c in inp['cases']:
        k = c['kind']
        if prog:
            with open(prog, 'w') as f:
                json.dump(c, f)
        if k == 'match':
            out.append(do_match(c))
        else:
            env = env or Env(main)
            out.append(do_dispatch(env, c) if k == 'dispatch' else do_reg(env, c))
    json.dump({'traces': out}, open(sys.argv[2], 'w'))
    sys.stdout.flush()
    os._exit(0)


if __name__ == '__main__':
    main_()
