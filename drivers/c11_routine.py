"""Driver for C11: run API histories on real Routine / Condition / FlowVar objects whose bodies are
built from scripts, and record what every external call did.

Input : {"ids": [...], "mode": "nrt", "cases": [case, ...]}
        case = {"prog": {rname: {"plain": 0|1, "inv": 0|1, "code": [instr, ...]}, ...},
                "conds": [cname, ...], "flows": [fname, ...],
                "hist": [{"op": name, "t": target, "v": int}, ...]}
        instr = {"op": .., "t": target, "v": int, "c": 0|1 (catch the exception of an API call)}
          body ops : yn v (yield v/8) | yv v (yield 's<v>') | ret | yar v | alw v
                     raise v (0 Boom(Exception) 1 BaseBoom(BaseException) 2 KeyboardInterrupt 3 SystemExit 4 GeneratorExit)
                     next|stop|pause|resume|reset|play t | wait t | signal|unhang t | settest t v
                     fget t | fset t v | embed t (yield from t.__embed__())
                     try .. except .. endx (except BaseException) | try .. finally .. endf  (nestable)
        external  : next t v (v = 0: no inval, else inval v/8) | play|pause|resume|stop|reset t
                    signal|unhang t | settest t v | fset t v | tick (pop one task of the NRT scheduler
                    and wake it: the body of ClockScheduler.run's loop)
Output: {"traces": [{"id", "prog", "conds", "flows", "ev": [event, ...]}]}
        event = {op, t, v, res: {k: ret|exc, x: kind or class, v}, states: {r: name}, cur, msecs,
                 w: {c: [names]}, q: [[t8, name], ...], log: [{r, pc, ev, k, x, v, cur, secs}, ...]}
No verdicts here: every event goes to TLC (TraceRoutine.tla)."""
import json
import os
import sys

BIG = 10 ** 8


def run_case(case, mode):
    """Run one case in mode `mode` ('nrt'; an RT/cosched runner can be added here) -> events."""
    import sc3.base.main as _m
    from sc3.base import stream as stm
    main = _m.main
    assert mode == 'nrt', mode
    main.current_tt = main.main_tt          # hygiene between cases (a previous case may have left it wrong)
    main.reset()
    names = {}
    log = []

    class Boom(Exception):
        pass

    class BaseBoom(BaseException):      # a user exception that is not an Exception
        pass

    exc_classes = {0: Boom, 1: BaseBoom, 2: KeyboardInterrupt, 3: SystemExit, 4: GeneratorExit}

    def tname(tt):
        if tt is None:
            return 'None'
        if tt is main.main_tt:
            return 'main'
        return names.get(id(tt), 'other')

    def num8(x):
        v = x * 8
        if v != v or abs(v) >= BIG or v != int(v):
            return None
        return int(v)

    def val(x):
        if x is None:
            return ('none', 0)
        if isinstance(x, bool):
            return ('bool', int(x))
        if isinstance(x, (int, float)):
            n = num8(x)
            return ('num', n) if n is not None else ('badnum', 0)
        if isinstance(x, str):
            if x == 'hang':
                return ('str', -1)
            if x[:1] == 's' and x[1:].isdigit():
                return ('str', int(x[1:]))
            return ('str', -2)
        if isinstance(x, tuple):
            return ('tuple', 0)
        if x is stm.FlowVar._UNBOUND:
            return ('unbound', 0)
        return ('other', 0)

    def cur_secs():
        tt = main.current_tt
        if tt is None:
            return 'None', -1
        try:
            s = num8(tt._seconds)
        except Exception:
            s = None
        return tname(tt), (s if s is not None else -2)

    def L(r, pc, ev, k, x, v):
        c, s = cur_secs()
        log.append({'r': r, 'pc': pc, 'ev': ev, 'k': k, 'x': x, 'v': v, 'cur': c, 'secs': s})

    routines, conds, flows = {}, {}, {}

    def make_test(v):
        """0 False | 1 True | callables: 2 -> False, 3 -> True, 4 raises TypeError inside, 5 raises ValueError,
        6 wrong arity (TypeError when called)"""
        if v in (0, 1):
            return bool(v)
        if v == 2:
            return lambda: False
        if v == 3:
            return lambda: True
        if v == 4:
            data = None
            return lambda: len(data) > 0
        if v == 5:
            def bad():
                raise ValueError('test')
            return bad
        return lambda x: False

    def api(op, t, v, inval=None):
        """one public API call; returns the value (exceptions propagate)"""
        if op == 'next':
            return next(routines[t]) if inval is None else routines[t].next(inval)    # iterator protocol / send
        if op in ('play', 'pause', 'resume', 'stop', 'reset'):
            return getattr(routines[t], op)()
        if op in ('signal', 'unhang'):
            return getattr(conds[t], op)()
        if op == 'settest':
            conds[t].test = make_test(v)
            return None
        if op == 'fset':
            flows[t].value = 's%d' % v
            return None
        raise AssertionError(op)

    def result(fn, reraise=False):
        """call -> recorded result; nothing keeps the exception object (its traceback holds frames) alive"""
        try:
            x, v = val(fn())
            return {'k': 'ret', 'x': x, 'v': v}
        except BaseException as ex:
            if reraise:
                L(*reraise, 'exc', type(ex).__name__, 0)
                raise
            return {'k': 'exc', 'x': type(ex).__name__, 'v': 0}

    def start(r, inval, first):
        x, v = val(inval)
        L(r, 1, 'start', 'ret', x if first else 'noarg', v if first else 0)

    def simple(r, i, ins):
        """non-yielding instruction: True = fall off the end (return)"""
        op = ins['op']
        if op == 'ret':
            return True
        if op == 'raise':
            raise exc_classes.get(ins['v'], Boom)('boom')
        if op == 'yar':
            raise stm.YieldAndReset(ins['v'] / 8.0)
        if op == 'alw':
            raise stm.AlwaysYield(ins['v'] / 8.0)
        res = result(lambda: api(op, ins['t'], ins['v']), reraise=None if ins['c'] else (r, i, 'call'))
        L(r, i, 'call', res['k'], res['x'], res['v'])
        return False

    def resume(r, pc, got):
        x, v = val(got)
        L(r, pc, 'resume', 'ret', x, v)

    def fval(r, pc, got):
        x, v = val(got)
        L(r, pc, 'fval', 'ret', x, v)

    def caught(r, pc, ex):
        L(r, pc, 'caught', 'exc', type(ex).__name__, 0)

    def fin(r, pc):
        L(r, pc, 'fin', 'ret', 'none', 0)

    def compile_body(r, p):
        """script -> source of a real Python function: straight-line statements, one per instruction, with real
        try / except BaseException / finally blocks (so that generator close / finalisation behaves as in any
        user routine); a generator function unless the body is plain."""
        code = p['code']
        out = ['def body(%s):' % ('inval' if p['inv'] else ''),
               '    start(r, %s, %s)' % (('inval', 'True') if p['inv'] else ('None', 'False'))]
        ind = 1

        def emit(line):
            out.append('    ' * ind + line)

        for i, ins in enumerate(code, 1):
            op = ins['op']
            if op == 'try':
                emit('try:')
                ind += 1
                emit('pass')
            elif op == 'except':
                ind -= 1
                emit('except BaseException as _e:')
                ind += 1
                emit('caught(r, %d, _e)' % i)
            elif op == 'finally':
                ind -= 1
                emit('finally:')
                ind += 1
                emit('fin(r, %d)' % i)
            elif op in ('endx', 'endf'):
                ind -= 1
            elif op == 'yn':
                emit('resume(r, %d, (yield %r))' % (i + 1, ins['v'] / 8.0))
            elif op == 'yv':
                emit('resume(r, %d, (yield %r))' % (i + 1, 's%d' % ins['v']))
            elif op == 'wait':
                emit('resume(r, %d, (yield from conds[%r].wait()))' % (i + 1, ins['t']))
            elif op == 'embed':
                emit('resume(r, %d, (yield from routines[%r].__embed__()))' % (i + 1, ins['t']))
            elif op == 'fget':
                emit('fval(r, %d, (yield from flows[%r].value))' % (i + 1, ins['t']))
            else:
                emit('if simple(r, %d, code[%d]): return' % (i, i - 1))
        assert ind == 1, 'unbalanced try blocks'
        if not p['plain'] and not any(l.lstrip().startswith(('resume(', 'fval(')) for l in out):
            out.append('    return')
            out.append('    yield')
        src = '\n'.join(out) + '\n'
        env = dict(r=r, code=code, start=start, simple=simple, conds=conds, flows=flows, routines=routines,
                   resume=resume, fval=fval, caught=caught, fin=fin)
        exec(compile(src, '<body %s>' % r, 'exec'), env)
        return env['body']

    for r in sorted(case['prog']):
        routines[r] = stm.Routine(compile_body(r, case['prog'][r]))
        names[id(routines[r])] = r
    for c in case['conds']:
        conds[c] = stm.Condition()
    for f in case['flows']:
        flows[f] = stm.FlowVar()
        conds[f] = flows[f].condition

    events = []
    sched = main._clock_scheduler
    for e in case['hist']:
        op, t, v = e['op'], e.get('t', ''), e.get('v', 0)
        del log[:]
        if op == 'tick':
            if sched.queue.empty():
                res = {'k': 'ret', 'x': 'empty', 'v': 0}
            else:
                tm, ct = sched.queue.pop()
                res = result(lambda: ct._wakeup(tm))
        elif op == 'next':
            res = result(lambda: api(op, t, v, None if v == 0 else v / 8.0))
        else:
            res = result(lambda: api(op, t, v))
        c, _s = cur_secs()
        ms = num8(main.main_tt._m_seconds)
        events.append({
            'op': op, 't': t, 'v': v, 'res': res,
            'states': {r: routines[r].state.name for r in routines},
            'cur': c, 'msecs': ms if ms is not None else -2,
            'w': {c_: [tname(x) for x in conds[c_]._waiting_threads] for c_ in conds},
            'q': [[num8(tm) if num8(tm) is not None else -2, tname(ct.task)] for tm, ct in sched.queue],
            'log': list(log)})
    del log[:]
    for rt in list(routines.values()):      # end the bodies now (not at some later collection); not recorded
        try:
            rt.stop()
        except BaseException:
            pass
    return events


def main_():
    import gc
    gc.disable()
    inp = json.load(open(sys.argv[1]))
    import sc3
    mode = inp.get('mode', 'nrt')
    sc3.init(mode)
    import logging
    logging.disable(logging.CRITICAL)
    sys.setrecursionlimit(400)
    gc.collect()
    gc.freeze()        # the library's own objects: keeps the per-case gc.collect() below cheap
    sys.unraisablehook = lambda *_: None     # errors of abandoned generators' clean-up code are ignored by Python
    out = []
    for i, case in zip(inp['ids'], inp['cases']):
        out.append({'id': i, 'prog': case['prog'], 'conds': case['conds'], 'flows': case['flows'],
                    'ev': run_case(case, mode)})
        # bodies, routines and their closures form reference cycles; the clean-up code of an abandoned generator may
        # call the library, so it must not run at some allocation inside a LATER case: automatic collection is off
        # (see below) and the cycles are collected here, between cases
        if len(out) % 20 == 0:
            gc.collect()
    json.dump({'traces': out}, open(sys.argv[2], 'w'))


if __name__ == '__main__':
    import sc3
    assert os.path.realpath(sc3.__file__).startswith(
        os.path.realpath(os.environ.get('SC3_REPO', '/repo'))), sc3.__file__
    main_()
