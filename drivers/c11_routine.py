"""Driver for C11: run API histories on real Routine / Condition / FlowVar objects whose bodies are
built from scripts, and record what every external call did.

Input : {"ids": [...], "mode": "nrt", "cases": [case, ...]}
        case = {"prog": {rname: {"plain": 0|1, "inv": 0|1, "code": [instr, ...]}, ...},
                "conds": [cname, ...], "flows": [fname, ...],
                "hist": [{"op": name, "t": target, "v": int}, ...]}
        instr = {"op": .., "t": target, "v": int, "c": 0|1 (catch the exception of an API call)}
          body ops : yn v (yield v/8) | yv v (yield 's<v>') | ret | raise | yar v | alw v
                     next|stop|pause|resume|reset|play t | wait t | signal|unhang t | settest t v
                     fget t | fset t v | embed t (yield from t.__embed__())
        external  : next t v (v = 0: no inval, else inval v/8) | play|pause|resume|stop|reset t
                    signal|unhang t | settest t v | fset t v | tick (pop one task of the NRT scheduler
                    and wake it: the body of ClockScheduler.run's loop)
Output: {"traces": [{"id", "prog", "conds", "flows", "ev": [event, ...]}]}
        event = {op, t, v, res: {k: ret|exc, x: kind or class, v}, states: {r: name}, cur, msecs,
                 w: {c: [names]}, q: [[t8, name], ...], log: [{r, pc, ev, k, x, v, cur, secs}, ...]}
No verdicts here: every event goes to TLC (TraceRoutine.tla)."""
import json
import os
import sys

BIG = 10 ** 8


def run_case(case, mode):
    """Run one case in mode `mode` ('nrt'; an RT/cosched runner can be added here) -> events."""
    import sc3.base.main as _m
    from sc3.base import stream as stm
    main = _m.main
    assert mode == 'nrt', mode
    main.current_tt = main.main_tt          # hygiene between cases (a previous case may have left it wrong)
    main.reset()
    names = {}
    log = []

    class Boom(Exception):
        pass

    def tname(tt):
        if tt is None:
            return 'None'
        if tt is main.main_tt:
            return 'main'
        return names.get(id(tt), 'other')

    def num8(x):
        v = x * 8
        if v != v or abs(v) >= BIG or v != int(v):
            return None
        return int(v)

    def val(x):
        if x is None:
            return ('none', 0)
        if isinstance(x, bool):
            return ('bool', int(x))
        if isinstance(x, (int, float)):
            n = num8(x)
            return ('num', n) if n is not None else ('badnum', 0)
        if isinstance(x, str):
            if x == 'hang':
                return ('str', -1)
            if x[:1] == 's' and x[1:].isdigit():
                return ('str', int(x[1:]))
            return ('str', -2)
        if isinstance(x, tuple):
            return ('tuple', 0)
        if x is stm.FlowVar._UNBOUND:
            return ('unbound', 0)
        return ('other', 0)

    def cur_secs():
        tt = main.current_tt
        if tt is None:
            return 'None', -1
        try:
            s = num8(tt._seconds)
        except Exception:
            s = None
        return tname(tt), (s if s is not None else -2)

    def L(r, pc, ev, k, x, v):
        c, s = cur_secs()
        log.append({'r': r, 'pc': pc, 'ev': ev, 'k': k, 'x': x, 'v': v, 'cur': c, 'secs': s})

    routines, conds, flows = {}, {}, {}

    def api(op, t, v, inval=None):
        """one public API call; returns the value (exceptions propagate)"""
        if op == 'next':
            return next(routines[t]) if inval is None else routines[t].next(inval)    # iterator protocol / send
        if op in ('play', 'pause', 'resume', 'stop', 'reset'):
            return getattr(routines[t], op)()
        if op in ('signal', 'unhang'):
            return getattr(conds[t], op)()
        if op == 'settest':
            conds[t].test = bool(v)
            return None
        if op == 'fset':
            flows[t].value = 's%d' % v
            return None
        raise AssertionError(op)

    def result(fn):
        try:
            x, v = val(fn())
            return {'k': 'ret', 'x': x, 'v': v}, None
        except BaseException as ex:
            return {'k': 'exc', 'x': type(ex).__name__, 'v': 0}, ex

    def start(r, inval, first):
        x, v = val(inval)
        L(r, 1, 'start', 'ret', x if first else 'noarg', v if first else 0)

    def simple(r, i, ins):
        """non-yielding instruction: True = fall off the end (return)"""
        op = ins['op']
        if op == 'ret':
            return True
        if op == 'raise':
            raise Boom('boom')
        if op == 'yar':
            raise stm.YieldAndReset(ins['v'] / 8.0)
        if op == 'alw':
            raise stm.AlwaysYield(ins['v'] / 8.0)
        res, ex = result(lambda: api(op, ins['t'], ins['v']))
        L(r, i, 'call', res['k'], res['x'], res['v'])
        if ex is not None and not ins['c']:
            raise ex
        return False

    GEN = '''
def body(HEADER):
    start(r, INVAL, FIRST)
    for i, ins in enumerate(code, 1):
        op = ins['op']
        if op == 'yn':
            got = yield ins['v'] / 8.0
        elif op == 'yv':
            got = yield 's%d' % ins['v']
        elif op == 'wait':
            got = yield from conds[ins['t']].wait()
        elif op == 'embed':
            got = yield from routines[ins['t']].__embed__()
        elif op == 'fget':
            got = yield from flows[ins['t']].value
            x, v = val(got)
            L(r, i + 1, 'fval', 'ret', x, v)
            continue
        else:
            if simple(r, i, ins):
                return
            continue
        x, v = val(got)
        L(r, i + 1, 'resume', 'ret', x, v)
'''
    PLAIN = '''
def body(HEADER):
    start(r, INVAL, FIRST)
    for i, ins in enumerate(code, 1):
        if simple(r, i, ins):
            return
'''

    def make(r, p):
        src = PLAIN if p['plain'] else GEN
        if p['inv']:
            src = src.replace('HEADER', 'inval').replace('INVAL', 'inval').replace('FIRST', 'True')
        else:
            src = src.replace('HEADER', '').replace('INVAL', 'None').replace('FIRST', 'False')
        env = dict(r=r, code=p['code'], start=start, simple=simple, conds=conds, flows=flows, routines=routines,
                   val=val, L=L)
        exec(src, env)
        return env['body']

    for r in sorted(case['prog']):
        routines[r] = stm.Routine(make(r, case['prog'][r]))
        names[id(routines[r])] = r
    for c in case['conds']:
        conds[c] = stm.Condition()
    for f in case['flows']:
        flows[f] = stm.FlowVar()
        conds[f] = flows[f].condition

    events = []
    sched = main._clock_scheduler
    for e in case['hist']:
        op, t, v = e['op'], e.get('t', ''), e.get('v', 0)
        del log[:]
        if op == 'tick':
            if sched.queue.empty():
                res = {'k': 'ret', 'x': 'empty', 'v': 0}
            else:
                tm, ct = sched.queue.pop()
                res, _ = result(lambda: ct._wakeup(tm))
        elif op == 'next':
            res, _ = result(lambda: api(op, t, v, None if v == 0 else v / 8.0))
        else:
            res, _ = result(lambda: api(op, t, v))
        c, _s = cur_secs()
        ms = num8(main.main_tt._m_seconds)
        events.append({
            'op': op, 't': t, 'v': v, 'res': res,
            'states': {r: routines[r].state.name for r in routines},
            'cur': c, 'msecs': ms if ms is not None else -2,
            'w': {c_: [tname(x) for x in conds[c_]._waiting_threads] for c_ in conds},
            'q': [[num8(tm) if num8(tm) is not None else -2, tname(ct.task)] for tm, ct in sched.queue],
            'log': list(log)})
    return events


def main_():
    inp = json.load(open(sys.argv[1]))
    import sc3
    mode = inp.get('mode', 'nrt')
    sc3.init(mode)
    import logging
    logging.disable(logging.CRITICAL)
    sys.setrecursionlimit(400)
    out = []
    for i, case in zip(inp['ids'], inp['cases']):
        out.append({'id': i, 'prog': case['prog'], 'conds': case['conds'], 'flows': case['flows'],
                    'ev': run_case(case, mode)})
    json.dump({'traces': out}, open(sys.argv[2], 'w'))


if __name__ == '__main__':
    import sc3
    assert os.path.realpath(sc3.__file__).startswith(
        os.path.realpath(os.environ.get('SC3_REPO', '/repo'))), sc3.__file__
    main_()
