"""Driver for C13: build real sc3 pattern objects from expression records, run stream operations on them
according to a schedule and record what every call returned, plus a deep snapshot digest of the pattern
object after every call.  No verdicts here: the trace goes to TLC (TracePattern.tla).

Input : {"N": n, "cases": [{"id": i, "x": expr, "sched": [[op, stream, arg], ...]}, ...]}
        ops: new(s, api)  next(s, how)  take(s, n)  all(s, 'all'|'list')  list(-)  reset(s);  an op name ending in '?' is only
        executed if an earlier take in this case has hit the end of its stream (finite pattern).
Output: {"traces": [{"id", "x", "n", "snap0", "ev": [{"op", "s", "n", "r": {"k", "v"}, "snap"}]}]}
values are token lists: [x] number, [LO, ..., LC] list, [TO, ..., TC] tuple."""
import hashlib
import itertools
import json
import operator
import random
import signal
import sys
import types

INF = 1000000
LO, LC, TO, TC = 2000000001, 2000000002, 2000000003, 2000000004
LIMIT = 2000000000


class Timeout(Exception):
    pass


def _alarm(signum, frame):
    raise Timeout()


def setup():
    import sc3
    sc3.init('nrt')
    from sc3.base import stream as stm, builtins as bi
    from sc3.seq import pattern as ptt
    from sc3.seq.patterns import listpatterns as lp, filterpatterns as fp, valuepatterns as vp, funcpatterns as fu
    return dict(stm=stm, bi=bi, ptt=ptt, lp=lp, fp=fp, vp=vp, fu=fu)


F1 = {'inc': lambda x: x + 1, 'dbl': lambda x: 2 * x, 'neg': lambda x: -x, 'abs': lambda x: abs(x),
      'sq': lambda x: x * x}
P1 = {'even': lambda x: x % 2 == 0, 'odd': lambda x: x % 2 == 1, 'gt1': lambda x: x > 1, 'le2': lambda x: x <= 2}


def rep(r):
    return float('inf') if r >= INF else r


class Unsupported(BaseException):
    """generator error (an operation that is not linear in the values under a lattice scale): never a verdict"""


class Builder:
    def __init__(self, m):
        self.m = m
        self.q = 1          # lattice: value positions hold v/q (floats) when q > 1

    def items(self, l):
        return [self.build(i) for i in l]

    def count(self, x):
        """operand in a count / index position: never scaled"""
        q, self.q = self.q, 1
        try:
            return self.build(x)
        finally:
            self.q = q

    def val(self, v):
        return v if self.q == 1 else v / self.q

    def build(self, x):
        m = self.m
        lp, fp, vp, fu, ptt, bi = m['lp'], m['fp'], m['vp'], m['fu'], m['ptt'], m['bi']
        t = x['t']
        b = self.build
        cnt = self.count
        if t == 'sc':
            if self.q != 1:
                raise Unsupported('nested scale')
            self.q = x['q']
            try:
                return b(x['p'])
            finally:
                self.q = 1
        if self.q != 1 and (t in ('geom', 'collect', 'select', 'reject', 'wrap', 'seed', 'place') or
                            (t in ('unop', 'binop', 'narop') and x['f'] in ('sq', 'mul', 'wrap'))):
            raise Unsupported(t)
        if t == 'int':
            return self.val(x['v'])
        if t == 'lit':
            return [self.val(v) for v in x['w']]
        if t == 'arr':
            return self.items(x['l'])
        if t == 'seq':
            return lp.Pseq(self.items(x['l']), rep(x['r']), x['o'])
        if t == 'ser':
            return lp.Pser(self.items(x['l']), rep(x['r']), x['o'])
        if t == 'place':
            return lp.Place(self.items(x['l']), rep(x['r']), x['o'])
        if t == 'placep':
            return lp.Placep(self.items(x['l']), rep(x['r']), x['o'])
        if t == 'pn':
            return fp.Pn(b(x['p']), rep(x['r']))
        if t == 'len':
            return fp.Plen(b(x['p']), x['k'])
        if t == 'drop':
            return fp.Pdrop(b(x['p']), x['k'])
        if t == 'stut':
            return fp.Pstutter(b(x['p']), cnt(x['n']))
        if t == 'clump':
            return fp.Pclump(b(x['p']), cnt(x['n']))
        if t == 'flat':
            return fp.Pflatten(b(x['p']), cnt(x['n']))
        if t == 'diff':
            return fp.Pdiff(b(x['p']))
        if t == 'const':
            if x['tl'] == 0:
                return fp.Pconst(b(x['p']), self.val(x['k']))         # default tolerance 0.001
            return fp.Pconst(b(x['p']), self.val(x['k']), self.val(x['tl']))
        if t == 'switch':
            return lp.Pswitch(self.items(x['l']), cnt(x['a']))
        if t == 'switch1':
            return lp.Pswitch1(self.items(x['l']), cnt(x['a']))
        if t == 'tuple':
            return lp.Ptuple(self.items(x['l']), rep(x['r']))
        if t == 'slide':
            return lp.Pslide(self.items(x['l']), cnt(x['n']), cnt(x['st']), x['k'], x['wr'], rep(x['r']))
        if t == 'series':
            return vp.Pseries(self.val(x['k']), b(x['st']), rep(x['r']))
        if t == 'geom':
            return vp.Pgeom(x['k'], b(x['st']), rep(x['r']))
        if t == 'collect':
            return fp.Pcollect(F1[x['f']], b(x['p']))
        if t == 'select':
            return fp.Pselect(P1[x['f']], b(x['p']))
        if t == 'reject':
            return fp.Preject(P1[x['f']], b(x['p']))
        if t == 'if':
            return fu.Pif(cnt(x['a']), b(x['b']), b(x['c']))
        if t == 'wrap':
            return fp.Pwrap(b(x['p']), b(x['a']), b(x['b']))
        if t == 'unop':
            a = b(x['a'])
            f = x['f']
            if isinstance(a, ptt.Pattern):       # through the operator interface of patterns
                return -a if f == 'neg' else abs(a) if f == 'abs' else a.squared()
            return ptt.Punop({'neg': operator.neg, 'abs': operator.abs, 'sq': bi.squared}[f], a)
        if t == 'binop':
            a, c = b(x['a']), b(x['b'])
            f = x['f']
            if isinstance(a, ptt.Pattern) or isinstance(c, ptt.Pattern):
                if f == 'add':
                    return a + c
                if f == 'sub':
                    return a - c
                if f == 'mul':
                    return a * c
                if f == 'min':
                    return bi.min(a, c)
                return bi.max(a, c)
            return ptt.Pbinop({'add': operator.add, 'sub': operator.sub, 'mul': operator.mul,
                               'min': bi.min, 'max': bi.max}[f], a, c)
        if t == 'narop':
            a, lo, hi = b(x['a']), b(x['b']), b(x['c'])
            f = x['f']
            if isinstance(a, ptt.Pattern):
                return bi.clip(a, lo, hi) if f == 'clip' else bi.wrap(a, lo, hi)
            return ptt.Pnarop(bi.clip if f == 'clip' else bi.wrap, a, lo, hi)
        if t == 'seed':
            return fp.Pseed(b(x['a']), b(x['p']))
        if t == 'shuf':
            return lp.Pshuffle(self.items(x['l']), rep(x['r']))
        if t == 'rand':
            return lp.Prand(self.items(x['l']), rep(x['r']))
        if t == 'white':
            return vp.Pwhite(x['k'], x['k'] + x['o'], rep(x['r']))
        if t == 'rout':
            lo, k, cnt_ = x['k'], x['o'], rep(x['r'])

            def draws():                # a routine function drawing with the library's builtins
                for _ in bi.counter(cnt_):
                    yield lo + bi.rand(k)
            return fu.Prout(draws)
        if t == 'run':
            a = b(x['a'])
            return -a if x['f'] == 'neg' else a + 1
        if t == 'rif':
            return fu.Pif(b(x['a']), b(x['b']), b(x['c']))
        if t == 'rseq':
            return lp.Pseq(self.items(x['l']), rep(x['r']))
        if t == 'rtuple':
            return lp.Ptuple([b(x['a']), b(x['b'])], 1)
        if t == 'rbin':
            a, c = b(x['a']), b(x['b'])
            f = x['f']
            return a + c if f == 'add' else a - c if f == 'sub' else a * c
        raise AssertionError('unknown tag ' + t)


def subexprs(x):
    yield x
    for k, v in x.items():
        if isinstance(v, dict):
            yield from subexprs(v)
        elif isinstance(v, list):
            for i in v:
                if isinstance(i, dict):
                    yield from subexprs(i)


def fill_tapes(x, n):
    """Pseed nodes get the reference tapes: draws of 'integer below K' from random.Random(seed) (CPython's
    generator is the environment; sc3 is not consulted)."""
    for s in subexprs(x):
        if s.get('t') != 'seed':
            continue
        seeds = sorted({q['v'] for q in subexprs(s['a']) if q['t'] == 'int'})
        if s['p']['t'] == 'shuf':      # reference permutation: what random.Random(seed).shuffle does to 1..n
            s['pm'] = []
            for sd in seeds:
                idx = list(range(1, len(s['p']['l']) + 1))
                random.Random(sd).shuffle(idx)
                s['pm'].append({'sd': sd, 'd': idx})
            continue
        ks = set()
        for q in subexprs(s['p']):
            if q['t'] == 'rand':
                ks.add(len(q['l']))
            elif q['t'] in ('white', 'rout'):
                ks.add(q['o'])
        assert len(ks) == 1, 'one draw kind per Pseed expected'
        k = ks.pop()
        s['tp'] = []
        for sd in seeds:
            g = random.Random(sd)
            s['tp'].append({'sd': sd, 'd': [g.randrange(k) for _ in range(4 * n + 8)]})


Q = [1]     # lattice of the case being run: numbers are read back times Q (must then be integers, exactly)


def enc(v):
    if Q[0] != 1 and isinstance(v, (int, float)) and not isinstance(v, bool):
        w = v * Q[0]
        if w != w or abs(w) >= LIMIT or w != int(w):
            raise ValueError('odd:offlattice')
        v = int(w)
    if isinstance(v, bool) or not isinstance(v, (int, list, tuple)):
        raise ValueError('odd:' + type(v).__name__)
    if isinstance(v, int):
        if abs(v) >= LIMIT:
            raise ValueError('odd:big')
        return [v]
    out = [LO if isinstance(v, list) else TO]
    for i in v:
        out += enc(i)
    out.append(LC if isinstance(v, list) else TC)
    return out


def snapshot(o):
    h = hashlib.sha1()
    seen = {}

    def w(o, depth):
        if depth > 40:
            h.update(b'<deep>')
            return
        if o is None or isinstance(o, (bool, int, float, str, bytes)):
            h.update(repr(o).encode())
            return
        if id(o) in seen:
            h.update(b'<ref%d>' % seen[id(o)])
            return
        seen[id(o)] = len(seen)
        if isinstance(o, (list, tuple)):
            h.update(type(o).__name__.encode() + b'(')
            for i in o:
                w(i, depth + 1)
                h.update(b',')
            h.update(b')')
        elif isinstance(o, dict):
            h.update(b'{')
            for k in sorted(o, key=repr):
                h.update(repr(k).encode() + b':')
                w(o[k], depth + 1)
            h.update(b'}')
        elif isinstance(o, (types.FunctionType, types.BuiltinFunctionType, types.MethodType, type)):
            h.update(('fn:%s:%d' % (getattr(o, '__qualname__', '?'), id(o))).encode())
        elif isinstance(o, types.GeneratorType):
            f = o.gi_frame
            h.update(('gen:%d:%s' % (id(o), 'done' if f is None else f.f_lasti)).encode())
        elif hasattr(o, '__dict__'):
            h.update(('obj:%s' % type(o).__qualname__).encode())
            w(vars(o), depth + 1)
        else:
            h.update(('other:%s:%d' % (type(o).__qualname__, id(o))).encode())
    w(o, 0)
    return h.hexdigest()[:12]


def run_case(m, case, n):
    stm = m['stm']
    x = case['x']
    fill_tapes(x, n)
    Q[0] = x['q'] if x['t'] == 'sc' else 1
    try:
        pat = Builder(m).build(x)
    except Timeout:
        raise
    except Exception as e:
        return {'id': case['id'], 'x': x, 'n': n, 'snap0': '', 'ev': [
            {'op': 'build', 's': 0, 'n': 0, 'r': {'k': 'exc:' + type(e).__name__, 'v': []}, 'snap': ''}]}
    streams = {}
    ev = []
    snap0 = snapshot(pat)
    finite = False
    inval = None

    def one(s):
        return streams[s][1]()

    for op, s, arg in case['sched']:
        if op.endswith('?'):
            if not finite:
                continue
            op = op[:-1]
        r = None
        try:
            if op == 'new':
                if arg == 'iter':
                    st = iter(pat)
                    streams[s] = (st, lambda st=st: next(st))
                elif arg == 'embed':        # the generator protocol used when a pattern is embedded
                    st = stm.embed(pat, inval)
                    streams[s] = (st, lambda st=st: next(st))
                else:
                    st = stm.stream(pat)
                    streams[s] = (st, lambda st=st: st.next(inval))
                r = {'k': 'none', 'v': []}
            elif op == 'next':
                try:
                    r = {'k': 'val', 'v': [enc(one(s))]}
                except StopIteration:       # StopStream is a StopIteration
                    r = {'k': 'stop', 'v': []}
            elif op == 'take':
                vals = []
                kind = 'seq'
                for _ in range(arg):
                    try:
                        vals.append(enc(one(s)))
                    except StopIteration:
                        kind = 'seqstop'
                        finite = True
                        break
                r = {'k': kind, 'v': vals}
            elif op == 'all':
                if arg == 'list':       # the iterator protocol on the same stream object
                    r = {'k': 'seq', 'v': [enc(v) for v in list(streams[s][0])]}
                else:
                    r = {'k': 'seq', 'v': [enc(v) for v in streams[s][0].all(inval)]}
            elif op == 'list':
                r = {'k': 'seq', 'v': [enc(v) for v in list(pat)]}
            elif op == 'reset':
                q = streams[s][0].reset()
                r = {'k': 'none' if q is None else 'other', 'v': []}
            else:
                raise AssertionError(op)
        except Timeout:
            r = {'k': 'timeout', 'v': []}
        except ValueError as e:
            if str(e).startswith('odd:'):
                r = {'k': str(e), 'v': []}
            else:
                r = {'k': 'exc:ValueError', 'v': []}
        except MemoryError:
            r = {'k': 'exc:MemoryError', 'v': []}
        except Exception as e:           # recorded, judged by the spec
            r = {'k': 'exc:' + type(e).__name__, 'v': []}
        ev.append({'op': op, 's': s, 'n': arg if isinstance(arg, int) else 0, 'r': r, 'snap': snapshot(pat)})
        if r['k'] == 'timeout' or r['k'].startswith('exc:') or r['k'].startswith('odd:'):
            break
    return {'id': case['id'], 'x': x, 'n': n, 'snap0': snap0, 'ev': ev}


def main():
    inp = json.load(open(sys.argv[1]))
    m = setup()
    n = inp['N']
    out = []
    signal.signal(signal.SIGALRM, _alarm)
    try:
        import resource
        resource.setrlimit(resource.RLIMIT_AS, (3 << 30, 3 << 30))
    except Exception:
        pass
    for case in inp['cases']:
        signal.setitimer(signal.ITIMER_REAL, inp.get('timeout', 5.0))
        try:
            out.append(run_case(m, case, n))
        except Timeout:
            out.append({'id': case['id'], 'x': case['x'], 'n': n, 'snap0': '', 'ev': [
                {'op': 'build', 's': 0, 'n': 0, 'r': {'k': 'timeout', 'v': []}, 'snap': ''}]})
        finally:
            signal.setitimer(signal.ITIMER_REAL, 0)
    json.dump({'traces': out}, open(sys.argv[2], 'w'))


if __name__ == '__main__':
    import logging
    logging.disable(logging.CRITICAL)
    import warnings
    warnings.simplefilter('ignore')
    import os
    import sc3
    assert os.path.realpath(sc3.__file__).startswith(os.path.realpath(os.environ.get('SC3_REPO', '/repo'))), sc3.__file__
    main()
