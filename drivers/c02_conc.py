"""Driver for the concurrent section of C02: two (or three) threads build DIFFERENT valid programs with forced
hand-overs (thread A, at a chosen instruction of its graph function, releases B and waits until B has announced its
attempt; the build lock is wrapped so that a thread blocked on it runs right after every release - see
drivers/c20_build.py).  Every definition emitted under that interleaving is recorded exactly like a sequential build
(bytes decoded by the independent reader, emission order, SynthDesc round trips) together with the sha of the same
program built alone beforehand (`ref`).
Input : {"cases": [{"ids": [ia, ib(, ic)], "progs": [Pa, Pb(, Pc)], "at": k}]}
Output: {"recs": [record + {id, prog, ref}]}         TraceScgf.tla decides."""
import json
import logging
import os
import sys

sys.path.insert(0, os.path.dirname(os.path.abspath(__file__)))
import c20_build as c20          # noqa: E402


def main():
    inp = json.load(open(sys.argv[1]))
    import sc3
    assert os.path.realpath(sc3.__file__).startswith(os.path.realpath(os.environ.get('SC3_REPO', '/repo'))), sc3.__file__
    logging.disable(logging.WARNING)
    sc3.init(os.environ.get('VERIF_MODE', 'nrt'))
    from harness import sgbuild
    b = sgbuild.Builder()
    main_ = b._libsc3.main
    main_._def_build_lock = c20.YieldingLock(main_._def_build_lock)
    out = []
    for case in inp['cases']:
        refs = [b.build(p)['sha'] for p in case['progs']]          # the same programs built alone
        r = c20.Runner(b)
        r.desc = True
        r.recs = []
        n = len(case['progs'])
        sc = dict(threads=[[dict(k='build', prog=p, key='c%d' % i)] for i, p in enumerate(case['progs'])],
                  sync=[[i, max(1, min(case['at'], len(case['progs'][i]['ins']) - 1)), i + 1] for i in range(n - 1)])
        c20.run_threads(r, sc)
        byprog = {id(p): (i, ref) for i, (p, ref) in enumerate(zip(case['progs'], refs))}
        for prog, rec in r.recs:
            i, ref = byprog[id(prog)]
            rec['id'] = case['ids'][i]
            rec['prog'] = prog
            rec['ref'] = ref
            out.append(rec)
    json.dump({'recs': out}, open(sys.argv[2], 'w'))
    sys.stdout.flush()
    os._exit(0)


if __name__ == '__main__':
    main()
