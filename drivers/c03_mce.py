"""Driver for C03: perform, on the real sc3 code and inside a SynthDef build, (a) the call with the
list-shaped arguments TLC generated and (b) exactly the single-channel calls TLC's expected tree
names, and project every returned value to a tree of canonical texts.  No verdicts here.

Input  {"mode": "targets"}                       -> {"ctors": [...], "unops": [...], "binops": [...]}
       {"mode": "run", "cases": [case...]}       -> {"traces": [...]}
  case = {"id", "target": {...}, "args": [tree], "kinds": [kind per atom id], "exp": tree, "lt": "list"|"cl"}
  tree node = {"k": "a"|"l"|"c"|"v"|"x", "a": id, "c": [ids], "s": text, "v": [nodes]}   ("x": the call raised s)
  target kinds:
    ctor   {"kind","mod","cls","sel"}          cls.sel(*args)            (first len(args) parameters)
    expr   {"kind","expr"}                     Python expression over a, b, c  (operators / methods)
    out    {"kind","mod","cls","sel","nfixed"} cls.sel(fixed..., channels)
Targets are derived mechanically from the source: a constructor qualifies when the class uses the
generic _multi_new/_new1/_init_ugen and the classmethod's body is one `return cls._multi_new('rate',
<its own parameters in some order>)`; an operator qualifies when the AbstractObject method's body is
one `return self._compose_unop/_compose_binop/_rcompose_binop(...)`."""
import ast
import importlib
import inspect
import json
import logging
import operator
import os
import pkgutil
import sys
import textwrap

logging.disable(logging.CRITICAL)

import sc3
sc3.init('nrt')
from sc3.base import absobject as aob
from sc3.base import builtins as bi
from sc3.synth import ugen as ugn
from sc3.synth import _graphparam as gpp
from sc3.synth.synthdef import SynthDef
from sc3.synth.ugens import line as lne
import sc3.synth.ugens as ugens_pkg


def node(k, a=0, c=(), s='', v=()):
    return {'k': k, 'a': a, 'c': list(c), 's': s, 'v': list(v)}


# ---------------------------------------------------------------- mechanical target derivation
def single_return_call(fn, owner, attr_names):
    """fn's body (docstring aside) is `return <owner>.<attr>(...)` -> the Call node, else None"""
    try:
        tree = ast.parse(textwrap.dedent(inspect.getsource(fn))).body[0]
    except (OSError, TypeError, SyntaxError, IndexError):
        return None, None
    body = [s for s in tree.body if not (isinstance(s, ast.Expr) and isinstance(s.value, ast.Constant))]
    if len(body) != 1 or not isinstance(body[0], ast.Return):
        return None, None
    c = body[0].value
    if isinstance(c, ast.Call) and isinstance(c.func, ast.Attribute) and c.func.attr in attr_names \
            and isinstance(c.func.value, ast.Name) and c.func.value.id == owner and not c.keywords:
        return tree, c
    return None, None


def text_of_default(x):
    return text(x, {})


def derive_ctors():
    out = []
    for m in pkgutil.iter_modules(ugens_pkg.__path__):
        mod = importlib.import_module('sc3.synth.ugens.' + m.name)
        for name, cls in sorted(vars(mod).items()):
            if not (inspect.isclass(cls) and issubclass(cls, ugn.SynthObject) and cls.__module__ == mod.__name__):
                continue
            if cls._multi_new.__func__ is not ugn.SynthObject._multi_new.__func__ \
                    or cls._new1.__func__ is not ugn.SynthObject._new1.__func__ \
                    or cls._init_ugen is not ugn.SynthObject._init_ugen:
                continue
            for sel in ('ar', 'kr', 'ir', 'dr', 'new'):
                f = cls.__dict__.get(sel)
                if not isinstance(f, classmethod):
                    continue
                tree, c = single_return_call(f.__func__, 'cls', ('_multi_new',))
                if c is None or not c.args or not isinstance(c.args[0], ast.Constant) \
                        or not isinstance(c.args[0].value, str):
                    continue
                if tree.args.vararg or tree.args.kwarg or tree.args.kwonlyargs:
                    continue
                params = [a.arg for a in tree.args.args[1:]]
                rest = [a.id if isinstance(a, ast.Name) else None for a in c.args[1:]]
                if None in rest or sorted(rest) != sorted(params):
                    continue
                sig = inspect.signature(getattr(cls, sel))
                dfl = []
                ok = True
                for p in params:
                    d = sig.parameters[p].default
                    if d is inspect.Parameter.empty:
                        dfl.append(None)
                    elif isinstance(d, (int, float)) and not isinstance(d, bool) or d is None or isinstance(d, str):
                        dfl.append(text_of_default(d))
                    else:
                        ok = False
                if not ok:
                    continue
                out.append({'kind': 'ctor', 'mod': mod.__name__, 'cls': name, 'sel': sel, 'rate': c.args[0].value,
                            'params': params, 'nreq': sum(1 for x in dfl if x is None), 'margs': [params.index(r) for r in rest], 'dfl': dfl})
    return out


DUNDER = {'__neg__': '-a', '__abs__': 'abs(a)', '__invert__': '~a', '__pos__': '+a',
          '__add__': 'a + b', '__sub__': 'a - b', '__mul__': 'a * b', '__truediv__': 'a / b',
          '__floordiv__': 'a // b', '__mod__': 'a % b', '__pow__': 'a ** b', '__lshift__': 'a << b',
          '__rshift__': 'a >> b', '__and__': 'a & b', '__or__': 'a | b', '__xor__': 'a ^ b',
          '__lt__': 'a < b', '__le__': 'a <= b', '__gt__': 'a > b', '__ge__': 'a >= b'}


def derive_ops():
    unops, binops = [], []
    for name, f in vars(aob.AbstractObject).items():
        if not inspect.isfunction(f):
            continue
        tree, c = single_return_call(f, 'self', ('_compose_unop', '_compose_binop', '_rcompose_binop'))
        if c is None:
            continue
        nparams = len(tree.args.args) - 1
        sel = c.args[0]
        # operators whose per-element behaviour cannot come from the generic builtin dispatch: the selector
        # is a plain Python operator function, or UGen overrides the method
        special = (isinstance(sel, ast.Attribute) and isinstance(sel.value, ast.Name) and sel.value.id == 'operator') \
            or name in vars(ugn.UGen)
        if name.startswith('__'):
            if name in DUNDER:
                (unops if nparams == 0 else binops).append({'kind': 'expr', 'expr': DUNDER[name], 'src': name})
            elif name.startswith('__r') and '__' + name[3:] in DUNDER and nparams == 1:
                # reflected operator: the receiver is the right operand
                e = DUNDER['__' + name[3:]].replace('a', 'X').replace('b', 'a').replace('X', 'b')
                binops.append({'kind': 'expr', 'expr': e, 'src': name})
        elif c.func.attr == '_compose_unop' and nparams == 0:
            unops.append({'kind': 'expr', 'expr': 'a.%s()' % name, 'src': name, 'special': special})
        elif c.func.attr == '_compose_binop' and nparams == 1 and len(c.args) == 2 and isinstance(c.args[1], ast.Name):
            # builtins with a default second operand (round, roundup, trunc) go through their own dispatcher
            binops.append({'kind': 'expr', 'expr': 'a.%s(b)' % name, 'src': name, 'named': True, 'sel': ast.unparse(sel),
                           'special': special or bool(tree.args.defaults)})
    return unops, binops


# ---------------------------------------------------------------- values and projection
def text(x, names):
    if id(x) in names:
        return names[id(x)]
    if isinstance(x, bool):
        return 'b%r' % x
    if isinstance(x, (int, float)):
        return 'n%r' % float(x)
    if x is None:
        return 'None'
    if isinstance(x, str):
        return 's:' + x
    if isinstance(x, tuple):
        return 't(' + ','.join(text(i, names) for i in x) + ')'
    if isinstance(x, list):
        return 'L[' + ','.join(text(i, names) for i in x) + ']'
    if isinstance(x, ugn.OutputProxy):
        return '%s[%d]' % (text(x.source_ugen, names), x._output_index)
    if isinstance(x, ugn.SynthObject):
        return '%s.%s#%d(%s)' % (type(x).__name__, x.rate, x._special_index,
                                 ','.join(text(i, names) for i in x.inputs))
    return 'obj:' + type(x).__name__


def project(x, names):
    if isinstance(x, list):
        return node('l', v=[project(i, names) for i in x])
    return node('v', s=text(x, names))


class Atoms:
    """fresh Python values for the atom ids of a case (inside the current build)"""

    def __init__(self, kinds):
        self.kinds = kinds
        self.val, self.names = {}, {}

    def get(self, a):
        if a not in self.val:
            k = self.kinds[a - 1]
            if k == 'n':
                v = a + 1.5
            elif k == 'ua':
                v = lne.DC.ar(100 + a)
                self.names[id(v)] = 'ua%d' % a
            elif k == 'uk':
                v = lne.DC.kr(100 + a)
                self.names[id(v)] = 'uk%d' % a
            elif k == 't':
                v = (a + 0.25, a + 0.75)
            elif k == 'z':
                v = 0 if a % 2 else 0.0
            elif k == 'b':
                v = bool(a % 2 == 0)
            else:
                raise AssertionError(k)
            self.val[a] = v
        return self.val[a]

    def text(self, a):
        return text(self.get(a), self.names)

    def value(self, t, lt):
        if t['k'] == 'a':
            return self.get(t['a'])
        items = [self.value(c, lt) for c in t['v']]
        return ugn.ChannelList(items) if lt == 'cl' else items


def leaves(t):
    if t['k'] == 'l':
        return [x for c in t['v'] for x in leaves(c)]
    return [t]


def invoke(target, vals):
    k = target['kind']
    if k == 'ctor' or k == 'out':
        cls = getattr(importlib.import_module(target['mod']), target['cls'])
        return getattr(cls, target['sel'])(*vals)
    if k == 'expr':
        if target.get('level') == 'one' and isinstance(vals[0], (int, float)):
            # convenience method on a plain-number channel: the library's number-side method
            rest = eval('(%s,)' % target['expr'].split('(', 1)[1][:-1], {}, dict(zip('abcdef', vals)))
            if target['src'] == 'madd':     # not a forwarded method: number.madd(mul, add) is MulAdd on the number
                return ugn.MulAdd.new(vals[0], *rest)
            return getattr(gpp.ugen_param(vals[0]), target['src'])(*rest)
        if target.get('named') and isinstance(vals[0], (int, float)):
            # a plain-number channel has no methods: the library's form of number.op(x) is the builtin op(number, x)
            # (the selector the method itself hands to _compose_binop: bi.round, operator.and_, ...)
            return eval(target['sel'], {'bi': bi, 'operator': operator})(*vals)
        return eval(target['expr'], {}, dict(zip('abcdef', vals)))
    raise AssertionError(k)


def in_build(body):
    """run body() as a graph function; errors of the build's final checks are irrelevant here"""
    box = {}

    def graph():
        box['sd'] = sc3.base.main.main._current_synthdef
        box['out'] = body(box['sd'])
    try:
        SynthDef('c03', graph)
    except Exception as e:
        if 'out' not in box:
            raise
    return box['out']


def measured(sd, names, f):
    n0 = len(sd._children)
    try:
        r = project(f(), names)
    except Exception as e:
        r = node('x', s=type(e).__name__)
    new = sd._children[n0:]
    return r, [text(u, names) for u in new]


def run_case(case):
    target, kinds, lt = case['target'], case['kinds'], case.get('lt', 'list')
    nargs = len(case['args'])

    def expanded(sd):
        at = Atoms(kinds)
        vals = []
        for j, t in enumerate(case['args']):
            # receivers of methods/operators are ChannelLists at every level
            vals.append(at.value(t, 'cl' if (j == 0 and target['kind'] == 'expr') else lt))
        for a in range(1, len(kinds) + 1):
            at.get(a)
        atext = [at.text(a) for a in range(1, len(kinds) + 1)]
        res, units = measured(sd, at.names, lambda: invoke(target, vals))
        after = [project(v, at.names) for v in vals]
        # the same call once more with the very same argument objects
        res2, units2 = measured(sd, at.names, lambda: invoke(target, vals))
        after2 = [project(v, at.names) for v in vals]
        return res, units, atext, after, (res2, units2, after2)

    res, units, atext, after, (res2, units2, after2) = in_build(expanded)
    combos = []
    for lf in leaves(case['exp']):
        if lf['c'] not in combos:
            combos.append(lf['c'])

    def singles(sd):
        at = Atoms(kinds)
        for a in range(1, len(kinds) + 1):
            at.get(a)
        tab = []
        for c in combos:
            r, us = measured(sd, at.names, lambda: invoke(target, [at.get(a) for a in c]))
            tab.append({'c': c, 'r': r, 'n': len(us)})
        return tab

    def rows(sd):
        # one level: the element calls TLC's Rows(args) names, argument subtrees as they are
        at = Atoms(kinds)
        for a in range(1, len(kinds) + 1):
            at.get(a)
        tab = []
        for row in case['rows']:
            vals = [at.value(t, 'cl' if j == 0 else lt) for j, t in enumerate(row)]
            r, us = measured(sd, at.names, lambda: invoke(target, vals))
            tab.append({'row': row, 'r': r, 'n': len(us)})
        return tab

    def opinfo(sd):
        # a binary operator on two units (a path that involves neither numbers nor lists): which opcode,
        # and which operand becomes which input
        if target['kind'] != 'expr' or nargs != 2 or target.get('level') == 'one' \
                or target.get('src') in ('__lt__', '__le__', '__gt__', '__ge__'):     # Python reflects these itself
            return -1, [1, 2]
        ua, ub = lne.DC.ar(1), lne.DC.kr(2)
        try:
            r = invoke(target, [ua, ub])
        except Exception:
            return -1, [1, 2]
        if type(r) is ugn.BinaryOpUGen and len(r.inputs) == 2:
            if r.inputs[0] is ua and r.inputs[1] is ub:
                return r._special_index, [1, 2]
            if r.inputs[0] is ub and r.inputs[1] is ua:
                return r._special_index, [2, 1]
        return -1, [1, 2]

    special, order = in_build(opinfo)
    if target['kind'] == 'out':
        tab = []
    elif target.get('level') == 'one':
        tab = in_build(rows)
    else:
        tab = in_build(singles)
    tg = {'kind': target['kind'], 'cls': target.get('cls', ''), 'rate': target.get('rate', ''),
          'expr': target.get('expr', ''), 'nfixed': target.get('nfixed', 0), 'level': target.get('level', 'deep'),
          'audio': target.get('rate', '') == 'audio', 'special': special, 'order': order,
          # _multi_new argument j comes from given argument margs[j] (1-based) or is a default text
          'margs': [({'p': m + 1, 'd': ''} if m < nargs else {'p': 0, 'd': target['dfl'][m] or '?'})
                    for m in target.get('margs', [])]}
    return {'id': case['id'], 'args': case['args'], 'kinds': kinds, 'target': tg,
            'ev': [{'res': res, 'n': len(units), 'units': units, 'tab': tab, 'atext': atext, 'after': after},
                   {'res': res2, 'n': len(units2), 'units': units2, 'after': after2}]}


def main_():
    inp = json.load(open(sys.argv[1]))
    if inp['mode'] == 'targets':
        unops, binops = derive_ops()
        json.dump({'ctors': derive_ctors(), 'unops': unops, 'binops': binops}, open(sys.argv[2], 'w'))
        return
    json.dump({'traces': [run_case(c) for c in inp['cases']]}, open(sys.argv[2], 'w'))


if __name__ == '__main__':
    assert os.path.realpath(sc3.__file__).startswith(os.path.realpath(os.environ.get('SC3_REPO', '/repo'))), sc3.__file__
    main_()
