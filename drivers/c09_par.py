"""Driver for C09 (consumer: parallel pattern streams): runs Ppar over children with the given durations and
records which child every emitted event belongs to.  Each child is also run ALONE to get its own time line
(left-to-right float sums of its own deltas); all times of a case are replaced by their ranks (see
spec/TraceParMerge.tla).  No verdicts here.
Input : {"cases": [{"id": n, "children": [[dur, ...], ...]}, ...]}
Output: {"traces": [{"id", "ranks": [[r0, ..., rn], ...], "em": [child (1-based), ...], "deltas_nonneg": bool}]}"""
import json
import sys

import sc3
sc3.init('nrt')
from sc3.seq.patterns.eventpatterns import Ppar, Pbind
from sc3.seq.patterns.listpatterns import Pseq
from sc3.base.stream import stream, StopStream
from sc3.seq import event as evt


def events(pattern):
    s = stream(pattern)
    out = []
    while len(out) < 10000:
        try:
            out.append(s.next(evt.event()))
        except StopStream:
            break
    return out


def main():
    inp = json.load(open(sys.argv[1]))
    traces = []
    for case in inp['cases']:
        kids = [Pbind({'v': i + 1, 'dur': Pseq(list(d))}) for i, d in enumerate(case['children'])]
        lines = []
        for k in kids:          # each child alone: its own time line
            t, line = 0.0, [0.0]
            for e in events(k):
                t = t + float(evt.event(e)('delta'))
                line.append(t)
            lines.append(line)
        order = sorted({t for line in lines for t in line})
        rank = {t: i for i, t in enumerate(order)}
        em, ok = [], True
        for e in events(Ppar(*kids)):
            e = evt.event(e)
            if e('delta') < 0:
                ok = False
            if 'v' in e and not evt.is_rest(e):
                em.append(e['v'])
        traces.append(dict(id=case['id'], ranks=[[rank[t] for t in line] for line in lines], em=em, deltas_nonneg=ok))
    json.dump(dict(traces=traces), open(sys.argv[2], 'w'))


if __name__ == '__main__':
    main()
