"""Driver for C12: run histories of tempo / beats / meter changes and queries on a real TempoClock,
from inside a routine playing on that clock, and record what every call returned.

Input : {"ids": [...], "mode": "nrt", "histories": [{"tempo": [tn, td], "start": e8, "beats0": e8,
         "ops": [{"op": name, "a": [ints or null]}, ...]}, ...]}
        numbers are in eighths (e8) unless the op says otherwise.
Output: {"traces": [{"id": i, "ev": [event, ...]}, ...]}
        event = {op, a: [fixed-point ints], k: "ok" | "exc:<Class>", r: [[n, exact], ...],
                 obs: {b, s, bbar, bbb: [n, exact], bpb: int}}
        fixed point: n = value * 12288 (3 * 2^12); exact = 1 iff the float is exactly n / 12288.
No verdicts here: every event goes to TLC (TraceTempoMath.tla)."""
import json
import os
import sys

S = 12288


def fx(x):
    """float -> [n, exact]"""
    if isinstance(x, bool) or not isinstance(x, (int, float)):
        return [-(2 ** 30), 0]
    v = x * S
    if v != v or abs(v) >= 2 ** 30:
        return [-(2 ** 30), 0]
    n = int(round(v))
    return [n, 1 if n == v else 0]


def e8(x):
    return x / 8.0


def se8(x):
    """eighths -> fixed point"""
    return x * (S // 8)


def observe(clock, main):
    return {'b': fx(clock.beats), 's': fx(main.current_tt._seconds), 'bbar': fx(clock.base_bar),
            'bbb': fx(clock.base_bar_beat),
            'bpb': int(clock.beats_per_bar) if clock.beats_per_bar == int(clock.beats_per_bar) else -1}


def run_history(h, mode):
    """Run one history in mode `mode` ('nrt'; an RT/cosched runner can be added here) -> events."""
    import sc3.base.main as _m
    from sc3.base.clock import TempoClock, Quant
    from sc3.base.stream import Routine
    main = _m.main
    assert mode == 'nrt', mode
    main.reset()
    events = []
    tn, td = h['tempo']
    nchild = [0]
    finished = [0]
    the_clock = [None]

    def log(clock, op, a, k, r):
        events.append({'op': op, 'a': a, 'k': k, 'r': r, 'obs': observe(clock, main)})

    def child_func(clock, k):
        def child(inval):
            log(clock, 'wake', [k], 'ok', [fx(clock.beats), fx(main.current_tt._seconds)])
            return
            yield
        return child

    def do(clock, op, a):
        """perform one non-yielding op; returns (fixed-point args, results)"""
        if op == 'tempo':
            clock.tempo = a[0] / a[1]
            return [a[0], a[1], 0], [fx(clock.tempo), fx(clock.beat_dur)]
        if op == 'etempo':      # set at the current elapsed time, which in NRT is the logical time
            clock.etempo(a[0] / a[1])
            return [a[0], a[1], 1], [fx(clock.tempo), fx(clock.beat_dur)]
        if op == 'beats':
            clock.beats = e8(a[0])
            return [se8(a[0])], []
        if op == 'meter':
            clock.beats_per_bar = a[0]
            return [a[0]], []
        if op == 'b2s':
            s = clock.beats2secs(e8(a[0]))
            return [se8(a[0])], [fx(s), fx(clock.secs2beats(s))]
        if op == 's2b':
            b = clock.secs2beats(e8(a[0]))
            return [se8(a[0])], [fx(b), fx(clock.beats2secs(b))]
        if op == 'ntog':
            q, ph, ref = a
            if ref is None:
                g = clock.next_time_on_grid(e8(q), e8(ph))
                return [se8(q), se8(ph), 0, 0], [fx(g)]
            g = clock.next_time_on_grid(e8(q), e8(ph), e8(ref))
            return [se8(q), se8(ph), se8(ref), 1], [fx(g)]
        if op == 'ttnb':
            return [se8(a[0])], [fx(clock.time_to_next_beat(e8(a[0])))]
        if op == 'bars':
            x = clock.beats2bars(e8(a[0]))
            return [se8(a[0])], [fx(x), fx(clock.bars2beats(x))]
        if op == 'bars2':
            b = clock.bars2beats(e8(a[0]))
            return [se8(a[0])], [fx(b), fx(clock.beats2bars(b))]
        if op == 'nextbar':
            if a[0] is None:
                return [0, 0], [fx(clock.next_bar())]
            return [se8(a[0]), 1], [fx(clock.next_bar(e8(a[0])))]
        if op == 'bar':
            return [], [fx(clock.bar()), fx(clock.beat_in_bar())]
        if op == 'play':
            k = nchild[0] = nchild[0] + 1
            Routine(child_func(clock, k)).play(clock, Quant(e8(a[0]), e8(a[1])))
            return [se8(a[0]), se8(a[1]), k], []
        if op == 'playq':       # quant given as a plain number / default (None -> next whole beat)
            k = nchild[0] = nchild[0] + 1
            Routine(child_func(clock, k)).play(clock, None if a[0] is None else e8(a[0]))
            return [se8(8 if a[0] is None else a[0]), 0, k], []
        if op == 'playbar':
            k = nchild[0] = nchild[0] + 1
            clock.play_next_bar(Routine(child_func(clock, k)))
            return [k], []
        raise AssertionError(op)

    def body_func(ops):
        def body(inval):
            _, clock = inval
            log(clock, 'start', [], 'ok', [])
            for o in ops:
                op, a = o['op'], o['a']
                if op == 'adv':
                    yield e8(a[0])
                    log(clock, 'adv', [se8(a[0])], 'ok', [])
                    continue
                try:
                    fa, r = do(clock, op, a)
                    log(clock, {'playq': 'play', 'etempo': 'tempo'}.get(op, op), fa, 'ok', r)
                except Exception as ex:     # recorded, judged by the spec
                    log(clock, op, [0, 0, 0, 0], 'exc:' + type(ex).__name__, [])
            finished[0] = 1
        return body

    def drv():
        yield e8(h['start'])
        clock = TempoClock(tn / td, e8(h['beats0']) if h['beats0'] else None)
        the_clock[0] = clock
        log(clock, 'new', [tn, td, se8(h['beats0']), se8(h['start'])], 'ok', [])
        Routine(body_func(h['ops'])).play(clock, 0)

    Routine(drv).play()
    main.process()
    zero = [0, 1]
    # seen from the main thread (outside any routine) the clock maps that thread's logical time
    events.append({'op': 'end', 'a': [finished[0]], 'k': 'ok',
                   'r': [fx(the_clock[0].beats), fx(main.main_tt._m_seconds), fx(the_clock[0].elapsed_beats())],
                   'obs': {'b': zero, 's': zero, 'bbar': zero, 'bbb': zero, 'bpb': 0}})
    return events


def main_():
    inp = json.load(open(sys.argv[1]))
    import sc3
    mode = inp.get('mode', 'nrt')
    sc3.init(mode)
    import logging
    logging.disable(logging.CRITICAL)
    out = []
    for i, h in zip(inp['ids'], inp['histories']):
        out.append({'id': i, 'ev': run_history(h, mode)})
    json.dump({'traces': out}, open(sys.argv[2], 'w'))


if __name__ == '__main__':
    import sc3
    assert os.path.realpath(sc3.__file__).startswith(
        os.path.realpath(os.environ.get('SC3_REPO', '/repo'))), sc3.__file__
    main_()
