"""Driver for C14 (NRT mode): (a) event(key) lookups on real sc3 events, (b) event patterns played by an
EventStreamPlayer with main.process() producing the OSC score.  Records projected observations; no verdicts
here (TraceEvent.tla decides).

Input : {"lookups": [{"id", "ev": {key: {n, s, r}}, "keys": [...]}],
         "plays":   [{"id", "E": program, "start": 1/32 s, "lat": 1/32 s, "clock": "system"|"tempo"}]}
Units of given keys and programs: see spec/Event.tla.
Output: {"traces": [...]}:
  lookup: {"id", "kind": "lookup", "ev", "obs": [{"key", "p64", "hz", "mn", "u", "au", "exc"}]}
  play:   {"id", "kind": "play", "E", "start", "lat", "score": [{"t", "cmd", "name", "id", "act", "grp", "pars": [{c, s, n, hz, mn}]}],
           "endu", "exc"}
Projection of a float x onto a lattice of step 1/q: round(x*q) if |x*q - round| <= 1e-7*max(1, |x*q|), else -1
(or "offgrid" in s); hz = 1/64 Hz, mn = cpsmidi(x) in 1/64 semitone, u = 1/163840 s, au = 1/13004800."""
import json
import math
import signal
import sys


class Timeout(BaseException):
    pass


def _alarm(signum, frame):
    raise Timeout()

U = 163840
AU = 13004800
PITCH = {'degree', 'mtranspose', 'gtranspose', 'root', 'octave', 'note', 'midinote', 'ctranspose'}
EIGHTH = {'freq', 'detune', 'harmonic'}
T32 = {'dur', 'stretch', 'legato', 'delta', 'sustain'}
UNIT = {'db', 'velocity', 'group', 'send_gate'}
SCALES = {'major': [0, 2, 4, 5, 7, 9, 11], 'minor': [0, 2, 3, 5, 7, 8, 10], 'penta': [0, 2, 4, 7, 9],
          'chromatic': list(range(12)), 'whole': [0, 2, 4, 6, 8, 10]}


def proj(x, q):
    if isinstance(x, bool) or not isinstance(x, (int, float)) or x != x or abs(x) > 1e7:
        return -1
    y = x * q
    r = round(y)
    if abs(y - r) <= 1e-7 * max(1.0, abs(y)) and abs(r) < 2 ** 31:
        return int(r)
    return -1


def proj_mn(f):
    if isinstance(f, bool) or not isinstance(f, (int, float)) or not f > 0:
        return -1
    return proj(math.log2(f / 440.0) * 12.0 + 69.0, 64)     # independent one-line inverse of midicps


class M:
    pass


def setup():
    import sc3
    sc3.init('nrt')
    m = M()
    from sc3.base.main import main
    from sc3.synth.synthdef import SynthDef
    from sc3.synth.ugens import SinOsc, Out, EnvGen, Pan2, LPF
    from sc3.synth.envelope import Env
    from sc3.synth.server import Server
    from sc3.seq.patterns import eventpatterns as ep, listpatterns as lp, filterpatterns as fp
    from sc3.seq import event as evt
    from sc3.seq.scale import Scale
    from sc3.base import clock as clk
    from sc3.base import stream as stm
    m.main, m.Server, m.ep, m.lp, m.fp, m.evt, m.Scale, m.clk, m.stm = main, Server, ep, lp, fp, evt, Scale, clk, stm

    def vg(freq=440, amp=0.1, pan=0, out=0, gate=1):
        sig = SinOsc.ar(freq) * amp * EnvGen.kr(Env.asr(), gate, done_action=2)
        Out.ar(out, Pan2.ar(sig, pan))

    def vn(freq=440, amp=0.1, pan=0, out=0):
        sig = SinOsc.ar(freq) * amp * EnvGen.kr(Env.perc(), done_action=2)
        Out.ar(out, Pan2.ar(sig, pan))

    def vx(out=0, cutoff=1000, gate=1, freq=440, amp=0.1):
        sig = LPF.ar(SinOsc.ar(freq), cutoff) * amp * EnvGen.kr(Env.asr(), gate, done_action=2)
        Out.ar(out, sig)

    def vp(amp=0.1, pan=0):
        Out.ar(0, Pan2.ar(SinOsc.ar(300) * amp * EnvGen.kr(Env.perc(), done_action=2), pan))

    for name, f in (('vg', vg), ('vn', vn), ('vx', vx), ('vp', vp)):
        SynthDef(name, f).add()
    m.scales = {k: Scale(v) for k, v in SCALES.items()}
    return m


def value(m, key, v):
    if v['s'] != '':
        x = m.scales[v['s']] if key == 'scale' else v['s']
    elif key in PITCH:
        x = v['n'] / 64
        if x == int(x) and key in ('degree', 'mtranspose', 'root', 'midinote', 'note', 'octave'):
            x = int(x)
    elif key in EIGHTH:
        x = v['n'] / 8
    elif key in T32:
        x = v['n'] / 32
    elif key in UNIT:
        x = v['n']
        if key == 'send_gate':
            x = bool(x)
    else:
        x = v['n'] / 1024
        if x == int(x):
            x = int(x)
    return m.evt.Rest(x) if v['r'] else x


def event_dict(m, ev):
    if isinstance(ev, list):
        return {}
    return {k: value(m, k, v) for k, v in ev.items() if not k.startswith('_')}


def lookups(m, case):
    d = event_dict(m, case['ev'])
    obs = []
    for key in case['keys']:
        o = {'key': key, 'p64': -1, 'hz': -1, 'mn': -1, 'u': -1, 'au': -1, 'exc': ''}
        try:
            e = m.evt.event(d)
            x = e(key)
            if isinstance(x, m.evt.Rest):
                x = x.value
            o['p64'] = proj(x, 64)
            o['hz'] = proj(x, 64)
            o['mn'] = proj_mn(x)
            o['u'] = proj(x, U)
            o['au'] = proj(x, AU)
        except Exception as ex:
            o['exc'] = type(ex).__name__
        obs.append(o)
    ev = dict(case['ev']) if isinstance(case['ev'], dict) else {}
    ev['_'] = {'n': 0, 's': '', 'r': False}
    return {'id': case['id'], 'kind': 'lookup', 'ev': ev, 'obs': obs}


def keypat(m, kd):
    vals = [value(m, kd['k'], v) for v in kd['vs']]
    if kd['m'] == 'k':
        return vals[0]
    p = m.lp.Pseq(vals, 1)
    if kd['m'] == 'pconst':
        return m.fp.Pconst(p, kd['x'] / 32)
    return p


def build(m, E):
    t = E['t']
    if t == 'bind':
        return m.ep.Pbind({kd['k']: keypat(m, kd) for kd in E['ks']})
    if t == 'mono':
        return m.ep.Pmono(E['s'], {kd['k']: keypat(m, kd) for kd in E['ks']}, articulate=bool(E.get('ar', False)))
    if t == 'seq':
        return m.lp.Pseq([build(m, x) for x in E['l']], 1)
    if t == 'chain':
        return m.ep.Pchain(build(m, E['l'][0]), build(m, E['l'][1]))
    if t == 'delta':
        return m.fp.Pdelta(E['x'] / 32, build(m, E['p']))
    if t == 'dur':
        if E['tl']:
            return m.fp.Pdur(E['x'] / 32, build(m, E['p']), E['tl'] / 32)
        return m.fp.Pdur(E['x'] / 32, build(m, E['p']))        # default tolerance 0.001
    if t == 'par':
        return m.ep.Ppar(*[build(m, x) for x in E['l']])
    raise AssertionError(t)


def arg(c, v):
    o = {'c': c, 's': '', 'n': 0, 'hz': -1, 'mn': -1}
    if isinstance(v, str):
        o['s'] = v
    elif isinstance(v, bool) or not isinstance(v, (int, float)):
        o['s'] = 'odd:' + type(v).__name__
    else:
        n = proj(v, 1024)
        if n == -1 and v * 1024 != -1:
            o['s'] = 'offgrid'
        else:
            o['n'] = n
        o['hz'] = proj(v, 64)
        o['mn'] = proj_mn(v)
    return o


def play(m, case):
    out = {'id': case['id'], 'kind': 'play', 'E': case['E'], 'start': case['start'], 'lat': case['lat'],
           'score': [], 'endu': -1, 'exc': ''}
    m.main.reset()
    m.Server.default.latency = case['lat'] / 32
    signal.setitimer(signal.ITIMER_REAL, m.timeout)  # a play that never ends is recorded, not waited for
    try:
        pat = build(m, case['E'])
        clock = m.clk.TempoClock(1) if case.get('clock') == 'tempo' else m.clk.SystemClock
        start = case['start'] / 32

        def starter():
            yield start
            pat.play(clock, 0)
        m.stm.Routine(starter).play(m.clk.SystemClock)
        score = m.main.process(0)
        for b in score.list:
            t = b[0]
            if not isinstance(t, (int, float)) and hasattr(t, '__float__'):
                t = float(t)        # a time computed from a Rest-wrapped duration is an Operand with that value
            for msg in b[1:]:
                cmd = msg[0]
                if cmd not in ('/s_new', '/n_set', '/n_free'):
                    continue
                e = {'t': proj(t, U), 'cmd': cmd, 'name': '', 'id': -1, 'act': 0, 'grp': 0, 'pars': []}
                if cmd == '/s_new':
                    e['name'], e['id'], e['act'], e['grp'] = str(msg[1]), int(msg[2]), int(msg[3]), int(msg[4])
                    rest = msg[5:]
                else:
                    e['id'] = int(msg[1])
                    rest = msg[2:]
                e['pars'] = [arg(str(rest[i]), rest[i + 1]) for i in range(0, len(rest) - 1, 2)]
                if len(rest) % 2:
                    e['pars'].append(arg('dangling', str(rest[-1])))
                out['score'].append(e)
        out['endu'] = proj(m.main.elapsed_time(), U)
    except Timeout:
        out['exc'] = 'timeout'
        out['score'] = out['score'][:50]
    except Exception as ex:
        out['exc'] = type(ex).__name__ + ':' + str(ex)[:80]
    finally:
        signal.setitimer(signal.ITIMER_REAL, 0)
        m.main.reset()
    return out


def main():
    inp = json.load(open(sys.argv[1]))
    m = setup()
    m.timeout = float(inp.get('timeout', 10.0))
    signal.signal(signal.SIGALRM, _alarm)
    traces = [lookups(m, c) for c in inp.get('lookups', [])]
    traces += [play(m, c) for c in inp.get('plays', [])]
    json.dump({'traces': traces}, open(sys.argv[2], 'w'))


if __name__ == '__main__':
    import logging
    logging.disable(logging.CRITICAL)
    import warnings
    warnings.simplefilter('ignore')
    import os
    import sc3
    assert os.path.realpath(sc3.__file__).startswith(os.path.realpath(os.environ.get('SC3_REPO', '/repo'))), sc3.__file__
    main()
