"""Driver for the history dimension of C19: ONE real Env instance per case, a sequence of operations on it.
Input : {"cases": [{id, init: {lv, tm, cv, rel, loop, off}, fl, ev: [{n, t, lv, tm, cv, node, off, ctl, ix}]}]}
        n: fmt | ifmt | at | dur | ugenE | ugenI | ugenEI | ugenIE | set_levels | set_times | set_curves |
           set_release_node | set_loop_node | set_offset | set_duration (d) | derive (kind, lo, hi)
        i: the instance operated on (1 = the constructed one, 2 = the one derived with range/exprange/curverange;
           derive on instance i (re)creates the other one)
Output: the cases with ev[i].r (and r2 for the two-generator SynthDefs) = {k, v, x}
No verdicts here: TLC (TraceEnvObj.tla) decides.  Projection as in c19_env.py (floor(v * 2^20))."""
import json
import sys

import c19_env as base
from c19_env import fix, num, curve, node, read_scgf

_counter = [0]


def synth_inputs(build):
    """run graph function `build` in a SynthDef, return {ugen class: [input values]} read from the bytes"""
    from sc3.synth.synthdef import SynthDef
    _counter[0] += 1
    sd = SynthDef('c19h_%d' % _counter[0], build)
    d = read_scgf(sd.as_bytes())[0]
    out = {}
    for u in d['ugens']:
        if u['cls'] in ('EnvGen', 'IEnvGen'):
            vals = []
            for ui, o in u['inputs']:
                if ui != -1:
                    raise ValueError('non constant input')
                vals.append(d['consts'][o])
            if u['cls'] in out:
                raise ValueError('two %s units' % u['cls'])
            out[u['cls']] = vals
    return out


def ok(vals):
    return {'k': 'ok', 'v': [fix(x) for x in vals], 'x': ''}


def perform(insts, e, fl):
    from sc3.synth.ugens import EnvGen, IEnvGen, Out
    n = e['n']
    none = {'k': 'ok', 'v': [], 'x': ''}
    env = insts[e['i']]
    if n == 'derive':
        lo, hi = num(e['lo'], fl), num(e['hi'], fl)
        if e['kind'] == 'range':
            new = env.range(lo, hi)
        elif e['kind'] == 'exprange':
            new = env.exprange(lo, hi)
        elif e['kind'] == 'curverange':
            new = env.curverange(lo, hi, -4)
        else:
            raise AssertionError(e['kind'])
        insts[3 - e['i']] = new
        return none, none
    if n == 'dur':
        return ok([env.duration]), none
    if n == 'set_duration':
        env.duration = num(e['d'], fl)
        return none, none
    if n == 'fmt':
        f = env._envgen_format()
        if len(f) != 1:
            raise ValueError('multichannel')
        return ok(f[0]), none
    if n == 'ifmt':
        f = env._interpolation_format()
        if len(f) != 1:
            raise ValueError('multichannel')
        return ok(f[0]), none
    if n == 'at':
        t = e['t']
        tv = t // 64 if t % 64 == 0 and not fl else t / 64
        return ok([env._at(tv)]), none
    ctl = [num(x, fl) for x in e.get('ctl', [])]
    ix = num(e['ix'], 1) if e.get('ix') else 0.5
    if n == 'ugenE':
        r = synth_inputs(lambda: Out.kr(0, EnvGen.kr(env, *ctl)))
        return ok(r['EnvGen']), none
    if n == 'ugenI':
        r = synth_inputs(lambda: Out.kr(0, IEnvGen.kr(env, ix)))
        return ok(r['IEnvGen']), none
    if n == 'ugenEI':
        def g():
            a = EnvGen.kr(env, *ctl)
            b = IEnvGen.kr(env, ix)
            Out.kr(0, [a, b])
        r = synth_inputs(g)
        return ok(r['EnvGen']), ok(r['IEnvGen'])
    if n == 'ugenIE':
        def g():
            b = IEnvGen.kr(env, ix)
            a = EnvGen.kr(env, *ctl)
            Out.kr(0, [a, b])
        r = synth_inputs(g)
        return ok(r['EnvGen']), ok(r['IEnvGen'])
    if n == 'set_levels':
        env.levels = [num(x, fl) for x in e['lv']]
    elif n == 'set_times':
        env.times = [num(x, fl) for x in e['tm']]
    elif n == 'set_curves':
        cvs = [curve(x, fl) for x in e['cv']]
        env.curves = cvs[0] if len(cvs) == 1 and e.get('scalar_cv') else cvs
    elif n == 'set_release_node':
        env.release_node = node(e['node'])
    elif n == 'set_loop_node':
        env.loop_node = node(e['node'])
    elif n == 'set_offset':
        env.offset = num(e['off'], fl)
    else:
        raise AssertionError(n)
    return none, none


def observe(case):
    from sc3.synth.envelope import Env
    fl = case.get('fl', 0)
    i = case['init']
    env = Env([num(x, fl) for x in i['lv']], [num(x, fl) for x in i['tm']], [curve(x, fl) for x in i['cv']],
              node(i['rel']), node(i['loop']), num(i['off'], fl))
    out = []
    insts = {1: env}
    for e in case['ev']:
        e = dict(e)
        for k, d in (('t', 0), ('lv', []), ('tm', []), ('cv', []), ('node', []), ('off', [0, 1]), ('ctl', []),
                     ('ix', [1, 2]), ('i', 1), ('kind', ''), ('lo', [0, 1]), ('hi', [1, 1]), ('d', [1, 1])):
            e.setdefault(k, d)
        try:
            r, r2 = perform(insts, e, fl)
        except AssertionError:
            raise
        except Exception as ex:
            r = r2 = {'k': 'exc', 'v': [], 'x': type(ex).__name__}
        e['r'], e['r2'] = r, r2
        out.append(e)
    tr = dict(case)
    tr['ev'] = out
    return tr


def main():
    import sc3
    sc3.init('nrt')
    inp = json.load(open(sys.argv[1]))
    json.dump({'traces': [observe(c) for c in inp['cases']]}, open(sys.argv[2], 'w'))


if __name__ == '__main__':
    import logging
    logging.disable(logging.CRITICAL)
    import warnings
    warnings.simplefilter('ignore')
    import os
    import sc3
    assert os.path.realpath(sc3.__file__).startswith(os.path.realpath(os.environ.get('SC3_REPO', '/repo'))), sc3.__file__
    main()
