"""Driver for C15: compose operators over the real sc3 operand kinds and record what evaluation gives.
Modes (input "mode"):
  catalog : list the operator names the library exposes (AbstractObject methods, scbuiltin functions)
  cases   : run cases; a case is a trace without observations
     lift : {id, ty, op, form, ka, kb, A, B, extra, pos}  -> adds A/B (evaluated operands as node arrays),
            tab (kernel on plain numbers for every pair of leaves) and O (evaluation of the composed object)
     lazy : {id, ty, op, form, ops: [{k, n, sid, vals|v, src}], law, gen, how}
            -> adds tab (kernel over every tuple of operand leaves, first operand fastest) and O (the outcome
               of every next() of the traversal(s) of the composed object, until the end(s))
     call : {id, ty, tpl, sigs, calls, ops: {u: [op, form], b: [op, form], n: [op, form]}, num}
            -> adds leaves[k][c] (every base function alone at every call), tab (the numeric expression over every
               tuple of calls, first function fastest) and O[c] (the composed function called with call c)
     range: {id, ty, fn, a: [{t, v}]}                      -> adds r, r2
     inv  : {id, ty, fn, k}                                -> adds r, rt
No verdicts here: TLC (TraceOps.tla) decides.  Values are written as text ("i:3", "f:0x1.8p+1", "b:True",
exceptions as x = 1 with the class name) so that equality of values is exact."""
import inspect
import json
import math
import operator
import sys
import types
from fractions import Fraction

MAXN = 12
POINTS = [(0, 5), (1, 6), (2, 7)]


# ------------------------------------------------------------------ values
def num(v):
    if v[0] == 'i':
        return int(v[1])
    if v[0] == 'f':
        return v[1] / v[2]
    if v[0] == 's':
        return v[1]
    raise AssertionError(v)


def val(v):
    """value -> [x, s]"""
    from sc3.base.operand import Operand
    if isinstance(v, Operand):
        v = v.value
    if isinstance(v, bool):
        return {'x': 0, 's': 'b:%s' % v}
    if isinstance(v, int):
        return {'x': 0, 's': 'i:%d' % v}
    if isinstance(v, float):
        return {'x': 0, 's': 'f:' + (v.hex() if math.isfinite(v) else repr(v))}
    if isinstance(v, complex):
        return {'x': 0, 's': 'c:%r' % v}
    if isinstance(v, str):
        return {'x': 0, 's': 's:' + v}
    return {'x': 0, 's': 'o:' + type(v).__name__}


def exc(ex):
    return {'x': 1, 's': type(ex).__name__}


class StubRandom:
    """deterministic stand-in for the routine random generator: the random kernels become functions"""
    def random(self):
        return 0.25

    def randrange(self, a, b=None, step=1):
        return a

    def randint(self, a, b):
        return a

    def uniform(self, a, b):
        return a + 0.25 * (b - a)

    def choice(self, seq):
        return seq[0]


# ------------------------------------------------------------------ operator catalog
def setup():
    import sc3
    sc3.init('nrt')
    from sc3.base import builtins as bi
    bi._libsc3 = types.SimpleNamespace(main=types.SimpleNamespace(_rgen=StubRandom()))
    return bi


DUNDER_UN = {
    '__neg__': operator.neg, '__pos__': operator.pos, '__abs__': abs, '__invert__': operator.invert,
    '__round__': round, '__trunc__': math.trunc, '__ceil__': math.ceil, '__floor__': math.floor}
DUNDER_BIN = {
    '__add__': operator.add, '__sub__': operator.sub, '__mul__': operator.mul, '__truediv__': operator.truediv,
    '__floordiv__': operator.floordiv, '__mod__': operator.mod, '__pow__': operator.pow,
    '__lshift__': operator.lshift, '__rshift__': operator.rshift, '__and__': operator.and_,
    '__or__': operator.or_, '__xor__': operator.xor, '__lt__': operator.lt, '__le__': operator.le,
    '__eq__': operator.eq, '__ne__': operator.ne, '__gt__': operator.gt, '__ge__': operator.ge}
# numeric meaning of the operators that are Python operators on numbers (everything else: the builtin
# of the same name applied to plain numbers)
PY_KERNEL = dict(DUNDER_BIN)
PY_KERNEL.update({'__neg__': operator.neg, '__pos__': operator.pos, '__abs__': abs, '__invert__': operator.invert,
                  'neg': operator.neg, 'abs': abs, 'bitnot': operator.invert, 'not_': operator.not_,
                  'pow': operator.pow, 'bitand': operator.and_, 'bitor': operator.or_, 'bitxor': operator.xor,
                  'lshift': operator.lshift, 'rshift': operator.rshift, 'as_int': int, 'as_float': float})


def kernel(bi, op, form=''):
    """the numeric operator behind operator name `op` (methods, dunders and builtins)"""
    if form == 'builtin':
        return getattr(bi, op)      # the module function itself, applied to plain numbers
    if op == '__mod__':
        return bi.mod            # documented: sclang modulo, not Python's
    if op == '__round__':
        return lambda a, n=1: bi.round(a, n)
    if op == '__trunc__':
        return lambda a: bi.trunc(a, 1)
    if op == '__ceil__':
        return bi.ceil
    if op == '__floor__':
        return bi.floor
    if op.startswith('__r') and op != '__rshift__' and '__' + op[3:] in DUNDER_BIN:
        return kernel(bi, '__' + op[3:])
    if op in PY_KERNEL:
        return PY_KERNEL[op]
    return getattr(bi, op)


def catalog(bi):
    from sc3.base import absobject as aob
    meth = []
    for n, f in vars(aob.AbstractObject).items():
        if not callable(f) or n.startswith('_compose') or n.startswith('_rcompose') or n == '__hash__':
            continue
        ps = list(inspect.signature(f).parameters.values())[1:]
        req = sum(1 for p in ps if p.default is inspect.Parameter.empty)
        meth.append(dict(name=n, nparams=len(ps), required=req))
    blt = []
    for n, f in vars(bi).items():
        q = getattr(f, '__qualname__', '')
        if callable(f) and q.startswith('scbuiltin.'):
            kind = q.split('.')[1]      # unop / binop / narop
            fn = f.__closure__ and [c.cell_contents for c in f.__closure__ if inspect.isfunction(c.cell_contents)]
            ps = list(inspect.signature(fn[0]).parameters.values())[1:] if fn else []
            req = sum(1 for p in ps if p.default is inspect.Parameter.empty)
            blt.append(dict(name=n, kind=kind, nparams=len(ps), required=req))
    return dict(methods=meth, builtins=blt)


# ------------------------------------------------------------------ operands
def make_list(t):
    """["L"|"T"|"C", [items]] | value"""
    if t[0] in ('L', 'T', 'C'):
        items = [make_list(x) for x in t[1]]
        if t[0] == 'T':
            return tuple(items)
        if t[0] == 'C':
            from sc3.synth.ugen import ChannelList
            return ChannelList(items)
        return items
    return num(t)


def make(kind, spec):
    from sc3.base.functions import Function
    from sc3.base.stream import stream, Routine
    from sc3.base.operand import Operand
    from sc3.seq.event import Rest
    from sc3.seq.patterns.listpatterns import Pseq
    from sc3.seq.pattern import pattern
    if kind == 'num':
        return num(spec['v'])
    if kind == 'opd':
        return Operand(num(spec['v']))
    if kind == 'rest':
        return Rest(num(spec['v']))
    if kind == 'list':
        return make_list(spec['tree'])
    vals = [num(v) for v in spec['vals']]
    src = spec.get('src', '')
    if kind == 'fn':
        if spec.get('nargs', 1) == 2:
            f = Function(lambda x, y: vals[y - 5])
        else:
            f = Function(lambda x: vals[x])
        if src == 'composed':
            f = f.neg().neg()
        return f
    if kind == 'strm':
        if src == 'routine':
            def gen():
                for v in vals:
                    yield v
            return Routine(gen)
        s = stream(Pseq(vals))
        if src == 'composed':
            s = s.neg().neg()
        return s
    if kind == 'pat':
        if src == 'gen':
            @pattern
            def pgen():
                for v in vals:
                    yield v
            return pgen()
        p = Pseq(vals)
        if src == 'composed':
            p = p.neg().neg()
        return p
    raise AssertionError(kind)


class Tree:
    def __init__(self):
        self.nodes = []
        self.leaves = []        # python values of leaves, by leaf id - 1

    def leaf(self, v, observed):
        if observed:
            self.nodes.append({'k': 'leaf', 'v': v, 'c': []})
        else:
            self.leaves.append(v)
            self.nodes.append({'k': 'leaf', 'x': len(self.leaves), 'c': []})
        return len(self.nodes)

    def lst(self):
        self.nodes.append(None)
        return len(self.nodes)

    def close(self, ix, kids, observed):
        self.nodes[ix - 1] = {'k': 'list', 'v': {'x': 0, 's': ''}, 'c': kids} if observed \
            else {'k': 'list', 'x': 0, 'c': kids}


def tree_of(obj, observed):
    """nested list/tuple structure -> node array (preorder, root = node 1)"""
    t = Tree()

    def rec(o):
        if isinstance(o, (list, tuple)):
            ix = t.lst()
            kids = [rec(x) for x in o]
            t.close(ix, kids, observed)
            return ix
        return t.leaf(val(o) if observed else o, observed)
    rec(obj)
    return t


def drain(s):
    """values of a stream; a raising element is kept as an exception leaf"""
    from sc3.base.stream import StopStream
    out = []
    for _ in range(MAXN):
        try:
            out.append(('v', s.next()))
        except StopStream:
            break
        except StopIteration:
            break
        except Exception as ex:
            out.append(('x', ex))
    else:
        out.append(('v', '...unbounded'))
    return out


def evaluate(kind, obj, how='stream'):
    """evaluate an object of an operand kind -> nested python structure whose leaves are ('v', value)/('x', exc)"""
    from sc3.base.stream import stream, embed
    if kind == 'fn':
        out = []
        for p in POINTS:
            try:
                out.append(('v', obj(*p)))
            except Exception as ex:
                out.append(('x', ex))
        return out
    if kind == 'strm':
        return drain(obj)
    if kind == 'pat':
        if how == 'embed':
            g = embed(obj)
            out = []
            for _ in range(MAXN):
                try:
                    out.append(('v', next(g)))
                except StopIteration:
                    break
                except Exception as ex:
                    out.append(('x', ex))
                    break           # a generator is finished after raising
            return out
        return drain(stream(obj))
    raise AssertionError(kind)


def obs_tree(struct):
    """structure with ('v', x)/('x', exc) leaves or raw nested lists -> observed node array"""
    t = Tree()

    def rec(o):
        if isinstance(o, tuple) and len(o) == 2 and o[0] in ('v', 'x') and not isinstance(o[1], (list, tuple)):
            return t.leaf(val(o[1]) if o[0] == 'v' else exc(o[1]), True)
        if isinstance(o, (list, tuple)):
            ix = t.lst()
            kids = [rec(x) for x in o]
            t.close(ix, kids, True)
            return ix
        return t.leaf(val(o), True)
    rec(struct)
    return t.nodes


def operand_tree(kind, spec, how):
    """evaluate a fresh copy of the operand alone -> Tree (leaf ids, python leaf values)"""
    obj = make(kind, spec)
    if kind in ('num',):
        return tree_of(obj, False)
    if kind in ('opd', 'rest'):
        return tree_of(obj.value, False)
    if kind == 'list':
        return tree_of(obj, False)
    ev = evaluate(kind, obj, how)
    vals = []
    for k, v in ev:
        if k == 'x':
            raise RuntimeError('operand raised %r' % (v,))
        vals.append(v)
    return tree_of(vals, False)


# ------------------------------------------------------------------ composition
def compose(bi, c, A, B, extra):
    from sc3.base import utils as utl
    op, form = c['op'], c['form']
    pos = c.get('pos', 0)
    ar = c['ar']
    K = kernel(bi, op)
    if ar == 1:
        if form == 'method':
            return getattr(A, op)()
        if form == 'dunder':
            return DUNDER_UN[op](A)
        if form == 'builtin':
            return getattr(bi, op)(A)
        if form == 'listfn':
            return utl.list_unop(K, A)
    elif ar == 2:
        if form == 'method':
            return getattr(A, op)(B)
        if form == 'method-default':
            return getattr(A, op)()
        if form == 'dunder':
            return DUNDER_BIN[op](A, B)
        if form == 'rdunder':       # op is '__radd__' ...: A is the plain number on the left
            return DUNDER_BIN['__' + op[3:]](A, B)
        if form == 'builtin':
            return getattr(bi, op)(A, B)
        if form == 'listfn':
            return utl.list_binop(K, A, B)
    else:
        args = list(extra)
        if c['kb'] != 'none':
            args.insert(pos, B)
        if form == 'method':
            return getattr(A, op)(*args)
        if form == 'builtin':
            return getattr(bi, op)(A, *args)
        if form == 'listfn':
            return utl.list_narop(K, A, *args)
    raise AssertionError((op, form, ar))


def run_lift(bi, c):
    how = c.get('how', 'stream')
    ka, kb = c['ka'], c['kb']
    extra = [num(v) for v in c.get('extra', [])]
    ta = operand_tree(ka, c['A'], how)
    if kb == 'none':
        tb = tree_of(0, False)
    elif kb == 'same':
        tb = ta
    else:
        tb = operand_tree(kb, c['B'], how)
    K = kernel(bi, c['op'], c['form'])
    pos = c.get('pos', 0)
    default2 = c['form'] == 'method-default'
    if default2:
        from sc3.base.absobject import AbstractObject
        dflt = list(inspect.signature(getattr(AbstractObject, c['op'])).parameters.values())[1].default
    tab = []
    for a in ta.leaves:
        row = []
        for b in tb.leaves:
            try:
                if c['ar'] == 1:
                    r = K(a)
                elif c['ar'] == 2:
                    r = K(a, dflt) if default2 else K(a, b)
                else:
                    args = list(extra)
                    if kb != 'none':
                        args.insert(pos, b)
                    r = K(a, *args)
                row.append(val(r))
            except Exception as ex:
                row.append(exc(ex))
        tab.append(row)
    if not tab:
        tab = [[{'x': 0, 's': ''}]]
    # the composed object, evaluated
    try:
        A = make(ka, c['A'])
        B = None if kb == 'none' else (A if kb == 'same' else make(kb, c['B']))
        res = compose(bi, c, A, B, extra)
        kinds = {ka, kb}
        if 'fn' in kinds:
            O = obs_tree(evaluate('fn', res))
        elif kinds & {'strm', 'pat'}:
            from sc3.seq.pattern import Pattern
            if isinstance(res, Pattern):
                O = obs_tree(evaluate('pat', res, how))
            else:
                O = obs_tree(evaluate('strm', res))
        else:
            from sc3.base.operand import Operand
            O = obs_tree(res.value if isinstance(res, Operand) else res)
    except Exception as ex:
        O = [{'k': 'leaf', 'v': exc(ex), 'c': []}]
    out = dict(id=c['id'], ty='lift', op=c['op'], form=c['form'], ka=ka, kb=('num' if kb == 'none' else kb),
               A=ta.nodes, B=tb.nodes, tab=tab, O=O, stopx=int(how == 'embed'))
    return out



# ------------------------------------------------------------------ lazily evaluated compositions
MARK = 424242
END = {'x': 2, 's': 'end'}
MAXCALLS = 60


def inval_of(i, ivmode):
    """the input value with identifier i (0: none)"""
    if i == 0:
        return None
    return {'x': i} if ivmode == 'dict' else i


def inval_id(inval):
    if inval is None:
        return 0
    return inval['x'] if isinstance(inval, dict) else inval


def make_reader(o, ivmode):
    """an operand that computes its element from the input value of the step"""
    from sc3.base.stream import FunctionStream
    from sc3.seq.patterns.funcpatterns import Pfunc, Pfuncn
    from sc3.seq.patterns.eventpatterns import Pkey
    base = num(o['vals'][0])

    def f(inval):
        return base + 16 * inval_id(inval)
    src = o.get('src', 'pfunc')
    if o['k'] == 'pat':
        if src == 'pkey' and ivmode == 'dict':
            return Pkey('x') if o['n'] >= 99 else Pkey('x', o['n'])
        return Pfunc(f) if o['n'] >= 99 else Pfuncn(f, o['n'])
    return FunctionStream(f)


def make_lazy_operand(o, shared, ivmode='num'):
    """operand object for one argument position; stream objects with the same sid are one object"""
    k = o['k']
    if k == 'num':
        return num(o['v'])
    if o.get('rd'):
        return make_reader(o, ivmode)
    if k in ('strm', 'rout'):
        key = o['sid']
        if key in shared:
            return shared[key]
        obj = make('strm', dict(vals=o['vals'], src='routine' if k == 'rout' else o.get('src', 'pseq')))
        shared[key] = obj
        return obj
    if k == 'pat':
        return make('pat', dict(vals=o['vals'], src=o.get('src', 'pseq')))
    if k == 'fn':
        return make('fn', dict(vals=o['vals'], nargs=1, src=o.get('src', '')))
    raise AssertionError(k)


def lazy_leaves(o, ni=1, ivmode='num'):
    """the evaluated operand alone: its leaf values"""
    k = o['k']
    if k == 'num':
        return [num(o['v'])]
    if o.get('rd'):         # one leaf per input value: a fresh copy asked once with that value
        from sc3.base.stream import stream
        return [stream(make_reader(o, ivmode)).next(inval_of(i, ivmode)) for i in range(1, ni + 1)]
    obj = make_lazy_operand(o, {})
    if k == 'fn':
        return [obj(*p) for p in POINTS]
    from sc3.base.stream import stream
    vals = []
    for kind, v in drain(stream(obj)):
        if kind == 'x':
            raise RuntimeError('operand raised %r' % (v,))
        vals.append(v)
    return vals


def outcome(v):
    """one element of a traversal: a value, or (when it is a function) its values at the sample points"""
    from sc3.base.functions import AbstractFunction
    if isinstance(v, AbstractFunction):
        c = []
        for p in POINTS:
            try:
                c.append(val(v(*p)))
            except Exception as ex:
                c.append(exc(ex))
        return {'v': {'x': 0, 's': 'fn'}, 'c': c}
    if isinstance(v, int) and not isinstance(v, bool) and MARK <= v < MARK + 64:
        return {'v': {'x': 3, 's': v - MARK}, 'c': []}      # the marker item tells the input value it was asked with
    return {'v': val(v), 'c': []}


class EmbedTraversal:
    """embed(C, inval): the generator is made with the input value of the first call, later ones are sent"""
    def __init__(self, C):
        self.C = C
        self.g = None

    def next(self, inval):
        from sc3.base.stream import embed
        if self.g is None:
            self.g = embed(self.C, inval)
            return next(self.g)
        return self.g.send(inval)


def traversals(how, C):
    """the objects whose next(inval) is called, for an evaluation mode"""
    from sc3.base.stream import stream
    from sc3.seq.patterns.listpatterns import Pseq
    from sc3.seq.patterns.funcpatterns import Pfuncn
    if how in ('stream', 'reset1', 'reset2'):
        return [stream(C)]
    if how == 'embed':
        return [EmbedTraversal(C)]
    if how == 'nested':
        return [stream(Pseq([C]))]
    if how == 'nested2':
        return [stream(Pseq([Pseq([C])]))]
    if how == 'tail':
        return [stream(Pseq([C, Pfuncn(lambda inval: MARK + inval_id(inval), 1)]))]
    if how == 'twice':
        return [stream(Pseq([C], 2))]
    if how == 'twice2':
        return [stream(Pseq([C, C]))]
    if how == 'inter':
        return [stream(C), stream(C)]
    if how == 'inter-nested':
        p = Pseq([C])
        return [stream(p), stream(p)]
    raise AssertionError(how)


def call_next(t, inval):
    return t.next(inval)


def run_lazy(bi, c):
    from sc3.base.stream import StopStream
    ops = c['ops']
    invs = c.get('invs', [0])
    ivmode = c.get('ivmode', 'num')
    ni = max(max(invs), 1)
    leaves = [lazy_leaves(o, ni, ivmode) for o in ops]
    dims = [len(l) for l in leaves]
    K = kernel(bi, c['op'], c['form'])
    total = 1
    for d in dims:
        total *= d
    tab = []
    for f in range(total):
        ix = []
        r = f
        for d in dims:
            ix.append(r % d)
            r //= d
        try:
            tab.append(val(K(*[leaves[k][i] for k, i in enumerate(ix)])))
        except Exception as ex:
            tab.append(exc(ex))
    O = []
    try:
        shared = {}
        objs = [make_lazy_operand(o, shared, ivmode) for o in ops]
        cc = dict(op=c['op'], form=c['form'], ar=min(len(ops), 3), kb='lazy', pos=0)
        if len(ops) == 1:
            C = compose(bi, cc, objs[0], None, [])
        elif len(ops) == 2:
            C = compose(bi, cc, objs[0], objs[1], [])
        else:
            cc['kb'] = 'none'
            C = compose(bi, cc, objs[0], None, objs[1:])
        ts = traversals(c['how'], C)
        alive = [True] * len(ts)
        turn = 0
        reset_after = {'reset1': 1, 'reset2': 2}.get(c['how'], 0)
        for j in range(MAXCALLS):
            if reset_after and j == reset_after:
                ts[0].reset()           # back to the start: whatever it answered before (even its end) is forgotten
                alive[0] = True
            if not any(alive) and not (reset_after and j < reset_after):
                break
            if not alive[turn] and len(ts) > 1:
                turn = (turn + 1) % len(ts)
            try:
                O.append(outcome(call_next(ts[turn], inval_of(invs[j % len(invs)], ivmode))))
            except (StopStream, StopIteration):
                O.append({'v': END, 'c': []})
                alive[turn] = False
            except Exception as ex:
                O.append({'v': exc(ex), 'c': []})
            turn = (turn + 1) % len(ts)
        else:
            O.append({'v': {'x': 0, 's': '...unbounded'}, 'c': []})
    except Exception as ex:      # building the composition or the traversal failed
        O = [{'v': exc(ex), 'c': []}]
    return dict(id=c['id'], ty='lazy', op=c['op'], form=c['form'], how=c['how'],
                ops=[dict(k=o['k'], n=o['n'] if o.get('rd') else dims[k], rd=bool(o.get('rd')), sid=o.get('sid', k + 1))
                     for k, o in enumerate(ops)],
                law=c['law'], gen=bool(c['gen']), invs=invs, tab=tab, O=O)


# ------------------------------------------------------------------ function composites and call shapes
DEFAULTS = {'p0': 7, 'a': 8, 'b': 6}
WEIGHTS = {'p0': 1, 'a': 10, 'b': 100}


def make_sig_function(k, names, fl):
    """a Function with the given parameter names (all with defaults) whose value tells what was bound"""
    from sc3.base.functions import Function
    base = (k + 1) * 1000 + (0.5 if fl else 0)
    params = ', '.join('%s=%d' % (n, DEFAULTS[n]) for n in names)
    body = ' + '.join(['%r' % base] + ['%s * %d' % (n, WEIGHTS[n]) for n in names])
    return Function(eval('lambda %s: %s' % (params, body)))


def lifted(bi, op, form, *xs):
    c = dict(op=op, form=form, ar=min(len(xs), 3), kb='none', pos=0)
    if len(xs) == 1:
        return compose(bi, c, xs[0], None, [])
    if len(xs) == 2:
        c['kb'] = 'x'
        return compose(bi, c, xs[0], xs[1], [])
    return compose(bi, c, xs[0], None, list(xs[1:]))


def build_template(tpl, f, U, B, N, num_):
    """f: base operands (functions or numbers); U/B/N apply the unary / binary / n-ary operator (lifted or numeric)"""
    if tpl == 'un':
        return U(f[0])
    if tpl == 'bin':
        return B(f[0], f[1])
    if tpl == 'rbin':
        return B(num_, f[0])
    if tpl == 'nar':
        return N(f[0], f[1], f[2])
    if tpl == 'nar1':
        return N(f[0], f[1], num_)
    if tpl == 'nar2':
        return N(f[0], num_, f[1])
    if tpl == 'un-bin':
        return U(B(f[0], f[1]))
    if tpl == 'bin-un':
        return B(f[0], U(f[1]))
    if tpl == 'nar-comp':
        return N(f[0], U(f[1]), B(f[2], f[3]))
    if tpl == 'bin-nar':
        return B(f[0], N(f[1], f[2], num_))
    if tpl == 'nar-nar':
        return N(f[0], N(f[1], f[2], num_), num_)
    raise AssertionError(tpl)


def run_call(bi, c):
    sigs, calls, tpl = c['sigs'], c['calls'], c['tpl']
    (uo, uf), (bo, bf), (no, nf) = c['ops']['u'], c['ops']['b'], c['ops']['n']
    num_ = num(c['num'])
    fl = c.get('fl', 0)
    rb = tpl == 'rbin'
    if rb and bf == 'dunder':
        bo_l, bf_l = '__r' + bo[2:], 'rdunder'
    elif rb and bf == 'method':         # a number has no such method: the module function with the number on the left
        bo_l, bf_l = bo, 'builtin'
    else:
        bo_l, bf_l = bo, bf

    def args_of(call):
        return list(call['pos']), {e['n']: e['v'] for e in call['kw']}
    nb, nc = len(sigs), len(calls)
    raw = []
    leaves = []
    for k, names in enumerate(sigs):
        fk = make_sig_function(k, names, fl and k % 2)
        row, rawrow = [], []
        for call in calls:
            a, kw = args_of(call)
            try:
                v = fk(*a, **kw)
                rawrow.append(v)
                row.append(val(v))
            except Exception as ex:         # the operand itself refuses the call: so must the composite
                rawrow.append(ex)
                row.append(exc(ex))
        raw.append(rawrow)
        leaves.append(row)
    KU, KB, KN = kernel(bi, uo, uf), kernel(bi, bo_l, bf_l), kernel(bi, no, nf)
    tab = []
    for f in range(nc ** nb):
        ix, r = [], f
        for _ in range(nb):
            ix.append(r % nc)
            r //= nc
        vals = [raw[k][ix[k]] for k in range(nb)]
        failed = [v for v in vals if isinstance(v, Exception)]
        try:
            tab.append(exc(failed[0]) if failed else val(build_template(tpl, vals, KU, KB, KN, num_)))
        except Exception as ex:
            tab.append(exc(ex))
    O = []
    try:
        fs = [make_sig_function(k, names, fl and k % 2) for k, names in enumerate(sigs)]
        C = build_template(tpl, fs, lambda x: lifted(bi, uo, uf, x), lambda x, y: lifted(bi, bo_l, bf_l, x, y),
                           lambda x, y, z: lifted(bi, no, nf, x, y, z), num_)
        for call in calls:
            a, kw = args_of(call)
            try:
                O.append(val(C(*a, **kw)))
            except Exception as ex:
                O.append(exc(ex))
    except Exception as ex:
        O = [exc(ex)] * nc
    out = dict(c)
    out.update(leaves=leaves, tab=tab, O=O)
    return out


# ------------------------------------------------------------------ kernel laws
def lat(a):
    return a['v'] // 8 if a['t'] == 'i' else a['v'] / 8.0


def latres(f, args):
    try:
        r = f(*args)
        if isinstance(r, bool) or not isinstance(r, (int, float)) or (isinstance(r, float) and not math.isfinite(r)):
            return {'k': 'ok', 'ex': 0, 'v': 0, 't': 'o'}, None
        x = Fraction(r) * 8
        v = math.floor(x)
        v = max(-2 ** 31 + 1, min(2 ** 31 - 1, v))
        return {'k': 'ok', 'ex': int(x.denominator == 1), 'v': v, 't': 'i' if isinstance(r, int) else 'f'}, r
    except Exception as ex:
        return {'k': 'exc', 'ex': 0, 'v': 0, 't': type(ex).__name__}, None


def run_range(bi, c):
    f = getattr(bi, c['fn'])
    args = [lat(a) for a in c['a']]
    r, raw = latres(f, args)
    r2 = dict(r)
    if c['fn'] == 'clip' and raw is not None:
        r2, _ = latres(f, [raw] + args[1:])
    out = dict(c)
    out.update(r=r, r2=r2)
    return out


INVERSE = dict(midicps='cpsmidi', cpsmidi='midicps', midiratio='ratiomidi', ratiomidi='midiratio',
               octcps='cpsoct', cpsoct='octcps', dbamp='ampdb', ampdb='dbamp')


def fix16(v):
    if isinstance(v, bool) or not isinstance(v, (int, float)) or (isinstance(v, float) and not math.isfinite(v)):
        raise ValueError('not a finite number')
    x = math.floor(Fraction(v) * 65536)
    return max(-2 ** 31 + 1, min(2 ** 31 - 1, x))


def run_inv(bi, c):
    k = c['k']
    fl = c.get('fl', 1)
    pt = dict(midicps=lambda: 69 + 12 * k, cpsmidi=lambda: 440 * 2.0 ** k, midiratio=lambda: 12 * k,
              ratiomidi=lambda: 2.0 ** k, octcps=lambda: 4.75 + k, cpsoct=lambda: 440 * 2.0 ** k,
              dbamp=lambda: 20 * k, ampdb=lambda: 10.0 ** k)[c['fn']]()
    if fl:
        pt = float(pt)
    out = dict(c)
    try:
        y = getattr(bi, c['fn'])(pt)
        out['r'] = {'k': 'ok', 'v': fix16(y)}
    except Exception as ex:
        out['r'] = {'k': 'exc', 'v': 0}
        out['rt'] = {'k': 'exc', 'v': 0}
        return out
    try:
        out['rt'] = {'k': 'ok', 'v': fix16(getattr(bi, INVERSE[c['fn']])(y))}
    except Exception as ex:
        out['rt'] = {'k': 'exc', 'v': 0}
    return out


def main():
    bi = setup()
    inp = json.load(open(sys.argv[1]))
    if inp.get('mode') == 'catalog':
        json.dump(catalog(bi), open(sys.argv[2], 'w'))
        return
    out = []
    for c in inp['cases']:
        if c['ty'] == 'lift':
            out.append(run_lift(bi, c))
        elif c['ty'] == 'lazy':
            out.append(run_lazy(bi, c))
        elif c['ty'] == 'call':
            out.append(run_call(bi, c))
        elif c['ty'] == 'range':
            out.append(run_range(bi, c))
        else:
            out.append(run_inv(bi, c))
    json.dump({'traces': out}, open(sys.argv[2], 'w'))


if __name__ == '__main__':
    import logging
    logging.disable(logging.CRITICAL)
    import warnings
    warnings.simplefilter('ignore')
    import os
    import sc3
    assert os.path.realpath(sc3.__file__).startswith(os.path.realpath(os.environ.get('SC3_REPO', '/repo'))), sc3.__file__
    main()
