"""Driver for C06: hand abstract values (realised as Python argument lists) to the real encoder,
size predictor, clumping senders and SynthDef._do_send, and record what came out.
Input : {"cases": [{"id", "kind", ...}]}       Output: {"traces": [...]}  (see spec/TraceOsc.tla)
No verdicts here."""
import json
import os
import sys
import threading

sys.path.insert(0, os.path.dirname(os.path.dirname(os.path.abspath(__file__))))
from harness import oscrt  # noqa: E402

TARGET = ('127.0.0.1', 57110)


def exc_name(e):
    return type(e).__name__


def predict(addr, py, is_msg):
    try:
        n = addr._calc_msg_dgram_size(py) if is_msg else addr._calc_bndl_dgram_size(py[1:])
        return {'k': 'ok', 'n': int(n)}
    except Exception as e:
        return {'k': 'raise', 'n': 0, 'exc': exc_name(e)}


def do_enc(main, addr, c, big):
    from sc3.base.clock import SystemClock
    from sc3.base._osclib import OscPacket
    v = oscrt.normalise(c['v'])
    py = oscrt.realise(c['v'])
    if c.get('off'):
        SystemClock._elapsed_osc_offset = int.from_bytes(bytes(c['off']), 'big')
    off = list(int(SystemClock._elapsed_osc_offset).to_bytes(8, 'big'))
    is_msg = v['t'] == 'm'
    oi = main._osc_interface
    t = {'id': c['id'], 'kind': c['kind'], 'v': v, 'off': off}
    try:
        m = oi._build_msg(0.0, list(py)) if is_msg else oi._build_bundle(0.0, list(py))
        dgram = bytes(m.dgram)
        if big:
            t['out'] = {'k': 'ok', 'len': len(dgram)}
        else:
            out = {'k': 'ok', 'bytes': list(dgram)}
            try:
                out['dec'] = oscrt.project_packet(OscPacket(dgram))
                out['dk'] = 'ok'
            except Exception as e:
                out['dec'] = []
                out['dk'] = 'raise:' + exc_name(e)
            t['out'] = out
    except Exception as e:
        t['out'] = {'k': 'raise', 'exc': exc_name(e)}
    t['pred'] = predict(addr, oscrt.realise(c['v']), is_msg)
    return t


def capture(main):
    sent = []
    oi = main._osc_interface
    oi._send = lambda msg, target: sent.append(bytes(msg.dgram))
    return sent


def project_dgrams(sent):
    out = []
    for d in sent:
        names = oscrt.osc10_elements(d)
        if names is None:
            out.append({'len': len(d), 'ids': [-1], 'sync': 0})
            continue
        sync = 1 if names and names[-1] == '/sync' else 0
        # the id is the run of digits in the address (addresses may carry non-ASCII text as well)
        ids = [int(''.join(ch for ch in n if ch.isdigit()) or -1) for n in (names[:-1] if sync else names)]
        out.append({'len': len(d), 'ids': ids, 'sync': sync})
    return out


def do_clump(main, addr, c):
    from sc3.base.stream import Routine
    from sc3.base.clock import SystemClock
    els = [oscrt.realise(e) for e in c['els']]
    lat = c.get('lat')          # None or float
    sent = capture(main)
    t = {'id': c['id'], 'kind': 'clump', 'site': c['site'], 'els': [oscrt.normalise(e) for e in c['els']]}
    preds = []
    try:
        # what _clump_bundle predicts per element: a message, or the content of a nested bundle
        preds = [int(addr._calc_msg_dgram_size(e)) if isinstance(e[0], str) else int(addr._calc_bndl_dgram_size(e[1:]))
                 for e in els]
    except Exception:
        preds = []
    t['pred'] = preds
    res = {'k': 'ok'}
    try:
        if c['site'] == 'clumped':
            addr.send_clumped_bundles(lat, *els)
        else:
            done = threading.Event()
            err = []
            oi = main._osc_interface

            def send(msg, target):
                d = bytes(msg.dgram)
                sent.append(d)
                # play the server: answer every /sync with /synced
                i = d.rfind(b'/sync\0\0\0,i\0\0')
                if i >= 0:
                    sid = int.from_bytes(d[i + 12:i + 16], 'big', signed=True)
                    rep = oi._build_msg(0.0, ['/synced', sid]).dgram
                    oi._handle_request(rep, target)
            oi._send = send

            def body():
                try:
                    yield from addr.sync(None, lat, els)
                except Exception as e:   # recorded
                    err.append(exc_name(e))
                done.set()
            Routine.run(body, SystemClock)
            if not done.wait(20):
                err.append('timeout')
            if err:
                res = {'k': 'raise', 'exc': err[0]}
    except Exception as e:
        res = {'k': 'raise', 'exc': exc_name(e)}
    res['dgrams'] = project_dgrams(sent)
    t['out'] = res
    del main._osc_interface._send       # back to the class method
    return t


_sdef = []


def do_dsend(main, addr, c):
    from sc3.synth.synthdef import SynthDef
    from sc3.synth.ugens.oscillators import SinOsc
    from sc3.synth.ugens.inout import Out
    from sc3.synth.server import Server
    from sc3.base.platform import Platform
    import tempfile
    if not _sdef:
        sd0 = SynthDef('verifc06', lambda: Out.ar(0, SinOsc.ar()))
        _sdef.append(sd0)
        _sdef.append(bytes(sd0.as_bytes()))
    sd, real = _sdef
    # a definition of exactly n bytes: the real one followed by padding (readers stop after the definition)
    sd._bytes = real + bytes(max(0, c['n'] - len(real)))
    cm = oscrt.realise(c['cm'])       # None, list, or a function of the server
    site = c.get('site', 'do_send')
    sent = capture(main)
    server = Server.default
    res = {'cmd': 'none', 'len': 0}
    try:
        if site == 'do_send':
            sd._do_send(server, cm(server) if callable(cm) else cm)     # its callers resolve functions
        elif site == 'send':
            sd.send(server, cm)
        elif site == 'add':
            sd.add('default', cm)
        elif site == 'store':
            with tempfile.TemporaryDirectory() as d:
                sd.store('default', d, cm)
        else:
            raise AssertionError(site)
        if sent:
            d = sent[0]
            res = {'cmd': d[:d.find(b'\0')].decode('latin-1'), 'len': len(d)}
    except AssertionError:
        raise
    except Exception as e:
        res = {'cmd': 'raise:' + exc_name(e), 'len': 0}
    del main._osc_interface._send
    try:
        (Platform.tmp_dir / 'verifc06.scsyndef').unlink()
    except OSError:
        pass
    return {'id': c['id'], 'kind': 'dsend', 'site': site, 'n': len(sd._bytes), 'cm': oscrt.normalise(c['cm']), 'out': res}


def main_():
    inp = json.load(open(sys.argv[1]))
    main = oscrt.init_rt()
    from sc3.base.netaddr import NetAddr
    addr = NetAddr(*TARGET)
    out = []
    for c in inp['cases']:
        k = c['kind']
        if k in ('enc', 'size'):
            out.append(do_enc(main, addr, c, k == 'size'))
        elif k == 'clump':
            out.append(do_clump(main, addr, c))
        elif k == 'dsend':
            out.append(do_dsend(main, addr, c))
        else:
            raise AssertionError(k)
    json.dump({'traces': out}, open(sys.argv[2], 'w'))
    sys.stdout.flush()
    os._exit(0)     # RT threads are daemons; skip the atexit queue (no server to quit)


if __name__ == '__main__':
    main_()
