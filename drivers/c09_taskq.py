"""Driver for C09: run histories on the real sc3 TaskQueue and record what every call returned.
Input : {"histories": [[{"n": op, "p": int (prio*8; 10**9 = inf), "t": task}, ...], ...], "ids": [...]}
Output: {"traces": [{"id": i, "ev": [{n, p, t, r: {k, v}}, ...]}, ...]}
No verdicts here: the trace goes to TLC (TraceTaskQueue.tla)."""
import json
import sys

from sc3.base._taskq import TaskQueue

INF = 10 ** 9


def prio(p):
    return float('inf') if p >= INF else p / 8.0


def unprio(x):
    if x == float('inf'):
        return INF
    v = x * 8
    assert v == int(v)
    return int(v)


def pair(x):
    # anything that is not one of our string tasks is written down as what it is; the spec rejects it
    if isinstance(x[1], Key):
        return [unprio(x[0]), x[1].name]
    t = x[1] if isinstance(x[1], str) else 'not-a-task:' + getattr(x[1], '__name__', type(x[1]).__name__)
    return [unprio(x[0]), t]


class Key:
    """a task that compares equal to, but is not, the object used in earlier calls (like a bound method
    obj.stop taken twice): the queue must treat them as the same item"""

    def __init__(self, name):
        self.name = name

    def __eq__(self, other):
        return isinstance(other, Key) and other.name == self.name

    def __hash__(self):
        return hash(self.name)


EQKEYS = False


def tk(t):
    return Key(t) if EQKEYS else t


def call(q, e):
    e = dict(e, t=tk(e['t'])) if 't' in e else e
    n = e['n']
    try:
        if n == 'add':
            r = q.add(prio(e['p']), e['t'])
        elif n == 'remove':
            r = q.remove(e['t'])
        elif n == 'pop':
            return {'k': 'pair', 'v': [pair(q.pop())]}
        elif n == 'peeks':
            return {'k': 'pair', 'v': [pair(q.peek())]}
        elif n == 'peekl':
            return {'k': 'pair', 'v': [pair(q.peek(False))]}
        elif n == 'empty':
            return {'k': 'true' if q.empty() else 'false', 'v': []}
        elif n == 'clear':
            r = q.clear()
        elif n == 'iter':
            return {'k': 'list', 'v': [pair(x) for x in q]}
        else:
            raise AssertionError(n)
        return {'k': 'none' if r is None else 'other:' + repr(r), 'v': []}
    except KeyError:
        return {'k': 'keyerror', 'v': []}
    except Exception as ex:  # recorded, judged by the spec
        return {'k': 'exc:' + type(ex).__name__, 'v': []}


def main():
    inp = json.load(open(sys.argv[1]))
    out = []
    global EQKEYS
    for i, h in zip(inp['ids'], inp['histories']):
        EQKEYS = bool(inp.get('eqkeys')) and i % 2 == 1
        q = TaskQueue()
        ev = []
        for e in h:
            ev.append({'n': e['n'], 'p': e.get('p', 0), 't': e.get('t', ''), 'r': call(q, dict(e))})
        out.append({'id': i, 'ev': ev})
    json.dump({'traces': out}, open(sys.argv[2], 'w'))


if __name__ == '__main__':
    import sc3, os
    assert os.path.realpath(sc3.__file__).startswith(os.path.realpath(os.environ.get('SC3_REPO', '/repo'))), sc3.__file__
    main()
