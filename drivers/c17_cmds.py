"""Driver for C17: run API histories on real Synth/Group/ParGroup/Buffer/Bus objects and record, per call,
what reached the OSC interface (typed tokens decoded from the real datagram bytes) and which ids the objects
report.  Input: {"cases": [{"cfg": {...}, "hist": [op, ...]}]}; output {"traces": [{"case", "cfg", "ev": [...]}]}.
An op is a dict: {"op": name, "h": receiver handle (1-based index of an object created earlier in the history),
"tk": "obj"|"none"|"server"|"root" (the integer 0), "t": target handle, "act": add-action name, "def": str, "a": [arg trees],
"n": [ints], "cm": "none"|"list"|"func", "via": constructor variant}; {"op": "bind", "body": [ops], "raise_at": k}.
Arg tree: {"k": "i"|"f"|"s"|"l"|"d"|"obj"|"map", "i": int (floats * 8; obj/map: handle), "s": str, "c": [trees]}.
No verdicts here: TraceServerCmd.tla decides."""
import json
import os
import re
import struct
import sys


# ------------------------------------------------------------------ independent OSC reader (bytes -> tokens)
def _pad(n):
    return (n + 4) & ~3


def _str(d, p):
    e = d.index(b'\0', p)
    return d[p:e].decode('utf8', 'replace'), p + _pad(e - p)


def tok(t, i=0, s=''):
    return {'t': t, 'i': i, 's': s}


def f8(x):
    v = x * 8
    if v == int(v) and abs(v) < 2 ** 30:
        return tok('f', int(v))
    return tok('f', 0, 'inexact:%r' % x)


def read_msg(d):
    addr, p = _str(d, 0)
    tags, p = _str(d, p)
    if not tags.startswith(','):
        raise ValueError('no type tags')
    g, blobs = [], []
    for c in tags[1:]:
        if c == 'i':
            g.append(tok('i', struct.unpack('>i', d[p:p + 4])[0]))
            p += 4
        elif c == 'f':
            g.append(f8(struct.unpack('>f', d[p:p + 4])[0]))
            p += 4
        elif c == 's':
            s, p = _str(d, p)
            g.append(tok('s', 0, s))
        elif c == 'b':
            n = struct.unpack('>i', d[p:p + 4])[0]
            body = d[p + 4:p + 4 + n]
            p += 4 + ((n + 3) & ~3)
            try:
                if not body.startswith(b'/'):
                    raise ValueError
                blobs.append(read_msg(body))
                g.append(tok('b', len(blobs)))
            except Exception:
                g.append(tok('b', 0, 'opaque'))
        elif c in '[]':
            g.append(tok(c))
        else:       # d h t T F N ... : never meant to be sent by these objects; the table refuses the tag
            g.append(tok(c))
            p += {'d': 8, 'h': 8, 't': 8}.get(c, 0)
    if p != len(d):
        raise ValueError('trailing bytes')
    # projection of bus map symbols ('c<index>' / 'a<index>' string arguments; the definition name of /s_new is not one)
    mp = []
    for k, x in enumerate(g):
        if x['t'] == 's' and not (addr == '/s_new' and k == 0):
            mm = re.fullmatch(r'([ca])(\d{1,9})', x['s'])
            if mm:
                mp.append({'k': mm.group(1), 'i': int(mm.group(2))})
    return {'a': addr, 'g': g, 'b': blobs, 'mp': mp}


def read_packet(d):
    """-> list of messages (bundle contents flattened one level; nested bundles are not produced by these objects)"""
    if d.startswith(b'#bundle\0'):
        p, out = 16, []
        while p < len(d):
            n = struct.unpack('>i', d[p:p + 4])[0]
            out += read_packet(d[p + 4:p + 4 + n])
            p += 4 + n
        return out
    return [read_msg(d)]


# ------------------------------------------------------------------ capture at the OSC interface
class Wire:
    def __init__(self, main):
        self.log = []
        self.iface = main._osc_interface
        self.main = main
        self.orig_msg = self.iface.send_msg
        self.orig_bundle = self.iface.send_bundle
        self.iface.send_msg = self.send_msg
        self.iface.send_bundle = self.send_bundle
        self.nested = False
        self.rt = hasattr(self.iface, '_socket')
        if self.rt:      # rt: nothing leaves the process
            self.iface._send = lambda msg, target: None

    def send_msg(self, target, *args):
        if self.nested:
            return self.orig_msg(target, *args)
        t = self.main.current_tt._seconds
        dgram = self.iface._build_msg(t, list(args)).dgram      # raises what the real send would raise
        self.log.append({'k': 'msg', 't': -1, 'm': read_packet(dgram), 'port': target[1]})
        self.nested = True
        try:
            return self.orig_msg(target, *args)
        finally:
            self.nested = False

    def send_bundle(self, target, time, *elements):
        if self.nested:
            return self.orig_bundle(target, time, *elements)
        t = self.main.current_tt._seconds
        dgram = self.iface._build_bundle(t, [time, *elements]).dgram
        msgs = read_packet(dgram)
        self.log.append({'k': 'bundle', 't': -1 if time is None else int(round(time * 1000)),
                         'm': msgs, 'port': target[1], 'sz': len(dgram)})
        self.nested = True
        try:
            r = self.orig_bundle(target, time, *elements)
        finally:
            self.nested = False
        if self.rt:
            # stub server: every '/sync id' is answered with '/synced id', as a datagram from the server's address
            # handed to the interface's request handler (which dispatches it on SystemClock like a received one)
            for m in msgs:
                if m['a'] == '/sync' and m['g'] and m['g'][0]['t'] == 'i':
                    reply = b'/synced\0,i\0\0' + struct.pack('>i', m['g'][0]['i'])
                    self.iface._handle_request(reply, target)
        return r

    def drain(self):
        out, self.log = self.log, []
        return out


# ------------------------------------------------------------------ running a history
class Boom(Exception):
    pass


class Runner:
    def __init__(self, mods, wire, server, cfg):
        self.m, self.wire, self.s, self.cfg = mods, wire, server, cfg
        self.objs = []          # handle-1 -> python object (or list of Buffers)
        self.ev = []

    def val(self, x):
        k = x['k']
        if k == 'i':
            return x['i']
        if k == 'f':
            return x['i'] / 8.0
        if k == 's':
            return x['s']
        if k == 'l':
            return [self.val(c) for c in x['c']]
        if k == 'd':
            c = x['c']
            return {self.val(c[i]): self.val(c[i + 1]) for i in range(0, len(c), 2)}
        o = self.objs[x['i'] - 1]
        if isinstance(o, list):
            o = o[0]
        if k == 'map':
            return o.as_map()
        return o

    def args(self, op):
        a = [self.val(x) for x in op.get('a', [])]
        return a

    def target(self, op):
        tk = op.get('tk', 'none')
        if tk == 'obj':
            return self.objs[op['t'] - 1]
        if tk == 'server':
            return self.s
        if tk == 'root':
            return 0        # a plain integer node id: the root node
        return None

    def own_ids(self, o):
        nod, buf, bus = self.m['nod'], self.m['buf'], self.m['bus']
        if isinstance(o, list):
            return [b.bufnum for b in o]
        if isinstance(o, nod.Node):
            return [o.node_id]
        if isinstance(o, buf.Buffer):
            return [o.bufnum]
        if isinstance(o, bus.Bus):
            return [o.index]
        return []

    def completion(self, cm):
        if cm == 'list':
            return ['/sync', 7]
        if cm == 'func':
            return lambda b, *_: ['/b_query', b.bufnum]
        if cm == 'state':       # reads the buffer's own state: allocate again with the same size
            return lambda b, *_: ['/b_alloc', b.bufnum, b.frames, b.channels]
        return None

    def call(self, op):
        nod, buf, bus = self.m['nod'], self.m['buf'], self.m['bus']
        name = op['op']
        n = op.get('n', [])
        s = self.s
        o = self.objs[op['h'] - 1] if op.get('h') else None
        if isinstance(o, list) and name != 'b_free':
            o = o[0]            # a new_consecutive group is addressed through its first buffer
        new = None
        if name in ('synth', 'paused', 'grain', 'replace'):
            a = self.args(op)
            sa = a[0] if len(a) == 1 and isinstance(a[0], dict) else (a or None)
            tgt, act, via = self.target(op), op.get('act', 'addToHead'), op.get('via', 'new')
            if name == 'paused':
                new = nod.Synth.new_paused(op['def'], sa, tgt, act)
            elif name == 'grain':
                nod.Synth.grain(op['def'], sa, tgt, act)
            elif name == 'replace':
                new = nod.Synth.replace(tgt, op['def'], sa, bool(n[0]))
            elif via == 'new':
                new = nod.Synth(op['def'], sa, tgt, act)
            else:
                new = getattr(nod.Synth, via)(tgt, op['def'], sa)
        elif name == 'group':
            cls = nod.ParGroup if n[0] else nod.Group
            tgt, via = self.target(op), op.get('via', 'new')
            new = cls(tgt, op['act']) if via == 'new' else getattr(cls, via)(tgt)
        elif name == 'basic':
            new = nod.Group.basic_new(s) if n[0] else nod.Synth.basic_new(op.get('def', 'default'), s)
        elif name in ('set', 'setn', 'map', 'mapa', 'mapn', 'mapan', 'fill'):
            getattr(o, name)(*self.args(op))
        elif name == 'bad':         # an argument the OSC encoder refuses
            if n[0] == 0:
                o.set('amp', 2 ** 40)
            else:
                import pathlib
                o.read(pathlib.Path('/tmp/x.wav'))
        elif name == 'run':
            o.run(bool(n[0]))
        elif name == 'release':
            o.release(n[1] / 8.0 if n[0] else None)
        elif name == 'trace':
            o.trace()
        elif name == 'free':
            o.free()
        elif name == 'free_nosend':
            o.free(False)
        elif name in ('move_before', 'move_after'):
            getattr(o, name)(self.target(op))
        elif name in ('move_to_head', 'move_to_tail'):
            getattr(o, name)(self.target(op))
        elif name in ('free_all', 'deep_free'):
            getattr(o, name)()
        elif name == 's_get':
            o.get(self.args(op)[0], lambda *a: None)
        elif name == 's_getn':
            o.getn(self.args(op)[0], n[0], lambda *a: None)
        elif name == 'n_query':
            o.query(lambda *a: None)
        elif name == 'dump_tree':
            o.dump_tree(bool(n[0]))
        elif name == 'free_default_group':
            s.free_default_group()
        elif name == 'reorder':
            s.reorder(self.args(op), self.target(op), op['act'])
        elif name == 'buffer':
            new = buf.Buffer(n[0], n[1], s, completion_msg=self.completion(op.get('cm')))
        elif name == 'buffer_noalloc':
            new = buf.Buffer(n[0], n[1], s, alloc=False)
        elif name == 'b_alloc':
            o.alloc(self.completion(op.get('cm')))
        elif name == 'consecutive':
            new = buf.Buffer.new_consecutive(n[0], n[1], n[2], s)
        elif name == 'b_free':
            for b in (o if isinstance(o, list) else [o]):
                b.free(self.completion(op.get('cm')))
        elif name == 'b_free_all':
            buf.Buffer.free_all(s)
        elif name == 'b_zero':
            o.zero(self.completion(op.get('cm')))
        elif name == 'b_close':
            o.close(self.completion(op.get('cm')))
        elif name == 'b_query':
            o.query(lambda *a: None)
        elif name in ('b_set', 'b_setn'):
            getattr(o, name[2:])(*self.args(op))
        elif name == 'b_fill':
            a = self.args(op)
            o.fill(a[0], a[1], a[2:])
        elif name == 'b_get':
            o.get(n[0], lambda *a: None)
        elif name == 'b_getn':
            o.getn(n[0], n[1], lambda *a: None)
        elif name in ('b_sine1', 'b_cheby'):
            getattr(o, name[2:])(self.args(op), bool(n[0]), bool(n[1]), bool(n[2]))
        elif name == 'b_sine2':
            a = self.args(op)
            o.sine2(a[0::2], a[1::2], bool(n[0]), bool(n[1]), bool(n[2]))
        elif name == 'b_sine3':
            a = self.args(op)
            o.sine3(a[0::3], a[1::3], a[2::3], bool(n[0]), bool(n[1]), bool(n[2]))
        elif name == 'b_normalize':
            o.normalize(self.args(op)[0], bool(n[0]))
        elif name == 'b_copy':
            o.copy_data(self.target(op), n[0], n[1], n[2])
        elif name == 'b_read':
            o.read(op['def'], n[0], n[1], n[2], bool(n[3]))
        elif name == 'b_cue':
            o.cue(op['def'], n[0], self.completion(op.get('cm')))
        elif name == 'b_write':
            o.write(op['def'], 'aiff', 'int24', n[0], n[1], bool(n[2]), self.completion(op.get('cm')))
        elif name == 'b_alloc_read':
            o.alloc_read(op['def'], n[0], n[1], self.completion(op.get('cm')))
        elif name == 'cbus':
            new = bus.ControlBus(n[0], s)
        elif name == 'abus':
            new = bus.AudioBus(n[0], s)
        elif name == 'bus_free':
            o.free()
        elif name == 'c_set':
            o.set(*self.args(op))
        elif name == 'c_set_at':
            o.set_at(n[0], *self.args(op))
        elif name == 'c_setn':
            o.setn(self.args(op))
        elif name == 'c_setn_at':
            o.setn_at(n[0], self.args(op))
        elif name == 'c_fill':
            o.fill(self.args(op)[0], n[0])
        elif name == 'c_get':
            o.get(lambda *a: None)
        elif name == 'c_getn':
            o.getn(n[0], lambda *a: None)
        else:
            raise AssertionError('unknown op ' + name)
        return new

    def refers_to_nothing(self, op):
        hs = [op.get('h', 0)] + ([op.get('t', 0)] if op.get('tk') == 'obj' else [])

        def walk(x):
            if x['k'] in ('obj', 'map'):
                hs.append(x['i'])
            for c in x.get('c', []):
                walk(c)
        for x in op.get('a', []):
            walk(x)
        return any(h and self.objs[h - 1] is None for h in hs)

    def record(self, op, ids, exc):
        e = {'op': op['op'], 'h': op.get('h', 0), 'tk': op.get('tk', 'none'), 't': op.get('t', 0),
             'act': op.get('act', 'addToHead'), 'def': op.get('def', ''), 'a': op.get('a', []), 'n': op.get('n', []),
             'cm': op.get('cm', 'none'), 'ids': ids, 'exc': exc, 'em': self.wire.drain()}
        if e['op'] in ('synth', 'group') and op.get('via', 'new') != 'new':
            e['act'] = op['via']        # the convenience constructors name the add action themselves
        self.ev.append(e)

    def step(self, op):
        creating = op['op'] in ('synth', 'paused', 'replace', 'group', 'basic', 'buffer', 'buffer_noalloc', 'consecutive',
                                'cbus', 'abus')
        try:
            if self.refers_to_nothing(op):
                raise LookupError('NoObject')      # an object whose creation was refused (no space) cannot be used
            new = self.call(op)
            exc = ''
        except Boom:
            raise
        except Exception as ex:
            new = None
            t = type(ex).__name__
            exc = 'AlreadyFreed' if t in ('BufferAlreadyFreed', 'BusAlreadyFreed') else t
            if t == 'LookupError' and str(ex) == 'NoObject':
                exc = 'NoObject'
            msg = str(ex)
            if 'failed to get' in msg or 'consecutive buffer numbers is available' in msg or 'No more buffer numbers' in msg:
                exc = 'NoSpace'
        ids = []
        if creating:
            self.objs.append(new)           # failed creations keep their handle (None) so later handles stay aligned
            ids = self.own_ids(new) if new is not None else []
            if not all(isinstance(i, int) for i in ids):
                exc = exc or 'ids:%r' % (ids,)
                ids = []
        self.record(op, ids, exc)

    def sync(self):
        """`yield from server.sync()`; the id of the /sync that went out is an observation (ids)"""
        exc = ''
        try:
            yield from self.s.sync()
        except Boom:
            raise
        except Exception as ex:
            exc = type(ex).__name__
        em = self.wire.drain()
        ids = [x['i'] for w in em for m in w['m'] if m['a'] == '/sync' for x in m['g'][:1] if x['t'] == 'i']
        self.wire.log = em              # record() drains again
        self.record({'op': 'sync'}, ids, exc)

    def bigbind(self, op):
        """one bind() block of N commands on node h, each carrying its number 1..N as an argument value: 'small' = set('amp',
        i); 'list' = setn('freq', [i, 0, 0, ...]) with op['len'] values; 'mixed' = every 50th is a list.  Optional sync after
        command k, optional exception before command r.  Recorded compactly: per bundle its time code, datagram size and the
        command numbers found in it (-1 = a message that is not one of the block's)."""
        N, k, r = op['n']
        node = self.objs[op['h'] - 1]
        kind, ln = op.get('payload', 'small'), op.get('len', 1500)
        tail = [0] * (ln - 1)
        self.wire.drain()
        exc = ''
        try:
            with self.s.bind():
                for i in range(1, N + 1):
                    if i == r:
                        raise Boom()
                    if kind == 'list' or (kind == 'mixed' and i % 50 == 0):
                        node.setn('freq', [i] + tail)
                    else:
                        node.set('amp', i)
                    if i == k:
                        yield from self.s.sync()
                if r == N + 1:
                    raise Boom()
        except Boom:
            pass
        except Exception as ex:
            exc = type(ex).__name__
        big = []
        for w in self.wire.drain():
            ids, sync = [], 0
            for m in w['m']:
                g = m['g']
                if m['a'] == '/sync':
                    sync = 1
                elif m['a'] == '/n_set' and len(g) == 3 and g[0]['i'] == node.node_id and g[1]['s'] == 'amp' and g[2]['t'] == 'i':
                    ids.append(g[2]['i'])
                elif m['a'] == '/n_setn' and len(g) == 3 + ln and g[0]['i'] == node.node_id and g[1]['s'] == 'freq' \
                        and g[2]['i'] == ln and all(x['t'] == 'i' and x['i'] == 0 for x in g[4:]):
                    ids.append(g[3]['i'])
                else:
                    ids.append(-1)
            big.append({'t': w['t'], 'sync': sync, 'ids': ids, 'sz': w.get('sz', 0), 'port': w['port']})
        e = {'op': 'bigbind', 'h': op['h'], 'tk': 'none', 't': 0, 'act': 'addToHead', 'def': op.get('payload', 'small'), 'a': [],
             'n': [N, k, r], 'cm': 'none', 'ids': [], 'exc': exc, 'em': [], 'big': big}
        self.ev.append(e)

    def run_gen(self, hist):
        for op in hist:
            if op['op'] == 'bigbind':
                yield from self.bigbind(op)
            elif op['op'] == 'bind':
                self.record({'op': 'bind_enter'}, [], '')
                raised, exc = 0, ''
                try:
                    with self.s.bind():
                        for k, inner in enumerate(op['body']):
                            if k == op.get('raise_at', -1):
                                raise Boom()
                            if inner['op'] == 'sync':
                                yield from self.sync()
                            else:
                                self.step(inner)
                        if op.get('raise_at', -1) == len(op['body']):
                            raise Boom()
                except Boom:
                    raised = 1
                except Exception as ex:         # raised by the block exit itself: recorded, judged by the spec
                    exc = type(ex).__name__
                self.record({'op': 'bind_exit', 'n': [raised]}, [], exc)
            elif op['op'] == 'sync':
                yield from self.sync()
            else:
                self.step(op)

    def run(self, hist, rt_routine=None):
        """histories with a sync need a routine in RT mode (sync waits for '/synced' on a clock); everything else,
        and NRT (where Server.sync only yields), is driven from the main thread"""
        if rt_routine is None:
            for _ in self.run_gen(hist):
                pass
            return self.ev
        main, Routine = rt_routine
        done = []

        def task():
            try:
                yield from self.run_gen(hist)
                done.append('')
            except BaseException as ex:     # noqa: reported to the caller as a driver error
                import traceback
                done.append(traceback.format_exc()[-1500:])
            finally:
                main.resume()

        r = Routine.run(task)
        if not main.wait(20):
            r.stop()
            self.wire.drain()
            self.ev.append({'op': 'timeout', 'h': 0, 'tk': 'none', 't': 0, 'act': 'addToHead', 'def': '', 'a': [], 'n': [],
                            'cm': 'none', 'ids': [], 'exc': '', 'em': []})
        elif done and done[0]:
            raise RuntimeError(done[0])
        return self.ev


def main():
    inp = json.load(open(sys.argv[1]))
    import sc3
    mode = os.environ.get('VERIF_MODE', 'nrt')
    if mode == 'rt':
        sc3.LIB_PORT = 20000 + (os.getpid() * 13) % 30000
        sc3.LIB_PORT_RANGE = 200
    sc3.init(mode)
    import sc3.base.main as bm
    from sc3.synth import server as srv, bus, buffer as buf, node as nod
    from sc3.base import netaddr as nad, stream as stm
    mods = dict(srv=srv, bus=bus, buf=buf, nod=nod)
    wire = Wire(bm.main)
    servers = {}
    real_addr = {}
    out = []
    for ci, case in enumerate(inp['cases']):
        c = case['cfg']
        key = (c['logins'], c['nbuf'], c['ncb'], c['nab'], c['initnode'], c.get('io', 4))
        s = servers.get(key)
        if s is None:
            o = srv.ServerOptions()
            o.max_logins = c['logins']
            o.buffers, o.control_buses, o.audio_buses = c['nbuf'], c['ncb'], c['nab']
            o.input_channels = o.output_channels = c.get('io', 4) // 2      # io = 0: the audio-bus space starts at index 0
            o.initial_node_id = c['initnode']
            s = srv.Server('c17_%d' % len(servers), nad.NetAddr('127.0.0.1', 57400 + len(servers)), o)
            servers[key] = s
        # histories are independent: if an earlier one left the server's address replaced (a defect the spec reports
        # there), this one starts from the real address again
        if key not in real_addr:
            real_addr[key] = s.addr
        s._addr = real_addr[key]
        s._set_client_id(c['client'])           # fresh allocators, node ids restart
        s._node_allocator._temp = c.get('nodestart', c['initnode'])
        srv.Server.default = s
        wire.drain()
        cfg = dict(client=c['client'], logins=c['logins'], nbuf=c['nbuf'], ncb=c['ncb'], nab=c['nab'], io=c.get('io', 4),
                   initnode=c['initnode'], rt=1 if mode == 'rt' else 0, latency=int(round(s.latency * 1000)), defgroup=s.default_group.node_id,
                   groups=[g.node_id for g in s._default_groups], port=s.addr.port)
        r = Runner(mods, wire, s, cfg)
        has_sync = any(o['op'] == 'sync' or (o['op'] == 'bigbind' and o['n'][1] > 0) or
                       any(i['op'] == 'sync' for i in o.get('body', [])) for o in case['hist'])
        try:
            ev = r.run(case['hist'], (bm.main, stm.Routine) if (mode == 'rt' and has_sync) else None)
            err = ''
        except Exception as ex:       # a crash of the driver itself is machinery, reported as such by the caller
            import traceback
            ev, err = r.ev, traceback.format_exc()[-1500:]
        # everything must have gone to this server's address
        for e in ev:
            for w in e['em'] + e.get('big', []):
                w.pop('sz', None)
                if w.pop('port') != cfg['port']:
                    e['exc'] = e['exc'] or 'wrong-address'
        out.append(dict(case=ci, cfg=cfg, ev=ev, err=err))
    json.dump({'traces': out}, open(sys.argv[2], 'w'))


if __name__ == '__main__':
    import sc3
    assert os.path.realpath(sc3.__file__).startswith(os.path.realpath(os.environ.get('SC3_REPO', '/repo'))), sc3.__file__
    main()
