"""Driver for C05 / C07 / C10: run routine programs on the real library in NRT mode (NrtMain) or RT mode
(RtMain under harness/cosched with timer lateness) and record what the program observed.
Mode comes from env VERIF_MODE (nrt|rt).  No verdicts here: traces go to TLC (TraceTime.tla).

Input : {"programs": [prog, ...]};  prog = {"id", "clocks": {"t1": [num, den]}, "routines": {name: [instr]},
         "main": [instr], "tail": units, "seed": n}      (instr = uniform record, see LogicalTime.tla)
Output: {"traces": [{"id", "mode", "prog", "ev": [...], "score": [...], "rawscore": [...], "raw_complete": bool,
                     "tail": units, "rawsha": str}]}
"""
import hashlib
import json
import os
import random
import struct
import sys

TU = 65536
MODE = os.environ.get('VERIF_MODE', 'nrt')


def E(k, r='', n=0, secs=0, beats=0, tag='', sk='', stamp=0, subk='-', sub=0, sub2=0, r2=''):
    return dict(k=k, r=r, n=n, secs=secs, beats=beats, tag=tag, sk=sk, stamp=stamp, subk=subk, sub=sub, sub2=sub2, r2=r2)


D3 = TU // 4       # nk = 3: a bundle nested in the nested bundle, a quarter second after it


def exact(x, what):
    v = x * TU
    iv = int(round(v))
    if iv != v:
        raise NonDyadic('%s=%r' % (what, x))
    return iv


class NonDyadic(Exception):
    pass


class Dur(float):
    """a user-defined duration type: still a number"""


class Beats(int):
    """an int subclass (like an IntEnum member)"""


def number(x, kind):
    if kind == 1:
        return Dur(x)
    if kind == 2 and x == int(x):
        return Beats(int(x))
    if kind == 3 and x == int(x):
        return int(x)
    return x


def main_():
    inp = json.load(open(sys.argv[1]))
    if MODE == 'rt':
        from harness import cosched
        S = cosched.install(cosched.FifoStrategy(), max_steps=600_000)
    else:
        S = None
    import sc3
    sc3.init(MODE, 'CRITICAL')
    assert os.path.realpath(sc3.__file__).startswith(os.path.realpath(os.environ.get('SC3_REPO', '/repo'))), sc3.__file__
    import logging
    logging.disable(logging.CRITICAL)
    traces = []
    remaining = []
    progs = inp['programs']
    for pi, prog in enumerate(progs):
        try:
            tr = run_rt(S, prog) if MODE == 'rt' else run_nrt(prog)
        except NonDyadic as e:
            tr = dict(id=prog['id'], mode=MODE, prog=prog, ev=[E('nondyadic', tag=str(e))], score=[], rawscore=[],
                      raw_complete=True, tail=prog.get('tail', 0), rawsha='')
        traces.append(tr)
        if tr.get('broken'):
            remaining = [p['id'] for p in progs[pi + 1:]]
            break
    json.dump({'traces': traces, 'remaining': remaining}, open(sys.argv[2], 'w'))
    sys.stdout.flush()
    os._exit(0)


# --------------------------------------------------------------------------- program -> real objects

class Runner:
    def __init__(self, prog, base, addr):
        from sc3.base.main import main
        from sc3.base import clock as clk
        self.prog = prog
        self.base = base            # elapsed seconds at program start
        self.ev = []
        self.clocks = {'sys': clk.SystemClock, 'app': clk.AppClock}
        for name, (num, den) in sorted(prog['clocks'].items()):
            self.clocks[name] = clk.TempoClock(num / den)
        self.routines = {}
        self.in_func = None
        self.yr_done = set()
        self.elems = {}
        self.nested = {}
        self.conds = {}
        self.addr = addr
        self.point = lambda: None   # RT programs with "points": a preemption point before every instruction of a body
        seeds = [i['a'] for body in prog['routines'].values() for i in body if i['op'] in ('K', 'KC')]
        self.lookup = {}
        for s in seeds:
            g = random.Random(s)
            for ix in range(64):
                self.lookup[g.random()] = (str(s), ix)

    def cond(self, name):
        from sc3.base.stream import Condition
        if name not in self.conds:
            self.conds[name] = Condition()
        return self.conds[name]

    def clockname(self, c):
        for k, v in self.clocks.items():
            if v is c:
                return k
        return '?'

    def routine(self, name):
        from sc3.base.stream import Routine
        from sc3.base.functions import Function
        if name not in self.routines:
            if name in self.prog.get('funcs', []):
                self.routines[name] = Function(self.fbody(name))
            else:
                self.routines[name] = Routine(self.body(name))
        return self.routines[name]

    def fbody(self, name):
        """a plain function scheduled on a clock: runs once, may send"""
        instrs = self.prog['routines'][name]

        def f(me, clock):
            self.in_func = name
            try:
                self.obs(name, 0, clock)
                for i in instrs:
                    self.point()
                    if i['op'] in ('S', 'M'):
                        self.send(name, i)
            finally:
                self.in_func = None
        return f

    def obs(self, name, n, clock):
        secs = clock.seconds - self.base
        cn = self.clockname(clock)
        beats = secs if cn in ('sys', 'app') else clock.beats
        self.ev.append(E('obs', r=name, n=n, secs=exact(secs, 'secs'), beats=exact(beats, 'beats')))

    def play(self, name, cname, q=0, ph=0):
        from sc3.base.clock import Quant
        from sc3.base.main import main
        r = self.routine(name)
        if name in self.prog.get('funcs', []):
            c = self.clocks[cname] if cname else main.current_tt._clock
            c.play(r, Quant(q // TU if q % TU == 0 else q / TU, ph / TU) if (q or ph) else 0)
            return
        quant = Quant(q // TU if q % TU == 0 else q / TU, ph / TU) if (q or ph) else 0
        if cname == '':
            r.play(None, quant)
        else:
            r.play(self.clocks[cname], quant)

    def send(self, name, i):
        tag = i['s']
        if i['op'] == 'M':
            if i['nk'] == 0 or MODE == 'nrt':
                self.addr.send_msg(tag, 1)
            else:       # a completion bundle as an argument of the message
                self.addr.send_msg(tag, 1, [None if i['nk'] == 2 else i['na'] / TU, [tag, 2]])
            return
        lat = None if i['b'] == 1 else i['a'] / TU
        # user code often keeps a message / bundle list and sends it again: the element lists are built once
        # per tag and the SAME objects are passed on every send of that tag
        if tag not in self.elems:
            if i['nk'] == 0:
                self.elems[tag] = [[tag, 1]]
            else:
                # ... and the nested bundle lists are shared by ALL sends with the same nested latencies
                key = (i['nk'], i['na'])
                if key not in self.nested:
                    nb = [None if i['nk'] == 2 else i['na'] / TU, ['/n', 2]]
                    if i['nk'] == 3:
                        nb.append([(i['na'] + D3) / TU, ['/n', 3]])
                    elif i['nk'] == 4:      # precedes its parent: the whole bundle must be refused
                        nb.append([(i['na'] - D3) / TU, ['/n', 3]])
                    self.nested[key] = nb
                self.elems[tag] = [[tag, 1], self.nested[key]]
        try:
            self.addr.send_bundle(lat, *self.elems[tag])
        except ValueError:
            self.ev.append(E('refused', r=name, tag=tag))

    def body(self, name):
        instrs = self.prog['routines'][name]
        from sc3.base import builtins as bi

        def gen(inval):
            me, clock = inval
            n = 0
            self.obs(name, n, clock)
            for i in instrs:
                self.point()
                op = i['op']
                if op == 'Y':
                    me, clock = yield number(i['a'] / TU, i['b'])
                    n += 1
                    self.obs(name, n, clock)
                elif op == 'P':
                    self.play(i['s'], i['c'], i['a'], i['b'])
                elif op == 'ST':
                    self.routine(i['s']).stop()
                elif op in ('S', 'M'):
                    self.send(name, i)
                elif op == 'T':
                    self.clocks[i['c']].tempo = i['a'] / i['b']
                elif op == 'ET':
                    self.clocks[i['c']].etempo(i['a'] / i['b'])
                elif op == 'TB':
                    self.clocks[i['c']].beats = i['a'] / TU
                elif op == 'YR':
                    if name not in self.yr_done:
                        self.yr_done.add(name)
                        from sc3.base.stream import YieldAndReset
                        raise YieldAndReset(i['a'] / TU)
                elif op == 'E':
                    raise RuntimeError('scripted failure in ' + name)
                elif op == 'X':
                    self.routine(i['s']).pause()
                elif op == 'Z':
                    self.routine(i['s']).resume(None, 0)
                elif op == 'W':
                    yield from self.cond(i['s']).wait()
                    n += 1
                    self.obs(name, n, clock)
                elif op == 'G':
                    c = self.cond(i['s'])
                    if i['a'] == 1:
                        c.test = True
                    c.signal()
                elif op == 'K':
                    me.rand_seed = i['a']
                elif op == 'KC':
                    self.routine(i['c']).rand_seed = i['a']
                elif op == 'D':
                    v = bi.rand(1.0)
                    g, ix = self.lookup.get(v, ('?', -1))
                    self.ev.append(E('draw', r=name, n=ix, tag=g))
                else:
                    raise AssertionError(op)
        return gen

    def run_main(self):
        for i in self.prog['main']:
            if i['op'] == 'P':
                self.play(i['s'], i['c'], i['a'], i['b'])
            elif i['op'] in ('S', 'M'):
                self.send('main', i)
            elif i['op'] == 'U' and MODE == 'nrt':
                self.send('main', dict(i, op='S'))


# --------------------------------------------------------------------------- NRT

def score_rows(lst):
    rows = []
    for b in lst:
        row = dict(time=exact(b[0], 'score time'), tag=b[1][0], subk='-', sub=0, sub2=0)
        if len(b) > 2:
            row['subk'] = 't'
            row['sub'] = exact(b[2][0], 'score subtime')
            if len(b[2]) > 2:
                row['sub2'] = exact(b[2][2][0], 'score subtime')
        rows.append(row)
    return rows


def run_nrt(prog):
    from sc3.base.main import main
    from sc3.synth.server import Server
    main.reset()
    R = Runner(prog, 0.0, Server.default.addr)
    R.run_main()
    score = main.process(prog['tail'] / TU)
    R.ev.append(E('end', secs=exact(main.elapsed_time(), 'elapsed')))
    raw = bytes(score.raw)
    rawrows, complete = parse_raw(raw)
    return dict(id=prog['id'], mode='nrt', prog=prog, ev=R.ev, score=score_rows(score.list), rawscore=rawrows,
                raw_complete=complete, tail=prog['tail'], rawsha=hashlib.sha1(raw).hexdigest())


# minimal independent OSC reader for the shapes these programs send (bundle of messages with int args, nested bundle)
def rd_str(b, i):
    j = b.index(b'\0', i)
    s = b[i:j].decode()
    return s, (j + 4) & ~3


def rd_msg(b):
    addr, i = rd_str(b, 0)
    tags, i = rd_str(b, i)
    args = []
    for t in tags[1:]:
        if t == 'i':
            args.append(struct.unpack('>i', b[i:i + 4])[0])
            i += 4
        elif t == 'b':
            n = struct.unpack('>i', b[i:i + 4])[0]
            args.append(bytes(b[i + 4:i + 4 + n]))
            i += 4 + ((n + 3) & ~3)
        else:
            raise ValueError('unexpected type tag ' + t)
    if i != len(b):
        raise ValueError('trailing bytes in message')
    return addr, args


def rd_bundle(b):
    if b[:8] != b'#bundle\0':
        raise ValueError('not a bundle')
    tag = struct.unpack('>Q', b[8:16])[0]
    i = 16
    els = []
    while i < len(b):
        n = struct.unpack('>i', b[i:i + 4])[0]
        i += 4
        if n < 0 or i + n > len(b):
            raise ValueError('bad element size')
        el = b[i:i + n]
        i += n
        els.append(('b', rd_bundle(el)) if el[:8] == b'#bundle\0' else ('m', rd_msg(el)))
    return tag, els


def parse_raw(raw):
    rows = []
    i = 0
    try:
        while i < len(raw):
            n = struct.unpack('>i', raw[i:i + 4])[0]
            i += 4
            if n <= 0 or i + n > len(raw):
                return rows, False
            tag, els = rd_bundle(raw[i:i + n])
            i += n
            row = dict(time=tag2units(tag, 0), tag=els[0][1][0], subk='-', sub=0, sub2=0)
            if len(els) > 1 and els[1][0] == 'b':
                row['subk'] = 't'
                row['sub'] = tag2units(els[1][1][0], 0)
                e2 = els[1][1][1]
                if len(e2) > 1 and e2[1][0] == 'b':
                    row['sub2'] = tag2units(e2[1][1][0], 0)
            rows.append(row)
    except (ValueError, IndexError, struct.error):
        return rows, False
    return rows, True


def pad(b):
    return b + b'\0' * (4 - len(b) % 4)


def mk_dgram(i, offset, base_units):
    """independent encoder for the incoming datagrams of IN instructions"""
    msg = pad(i['s'].encode()) + pad(b',i') + struct.pack('>i', 7)
    if i['b'] == 2:
        return msg
    tag = 1 if i['b'] == 1 else offset + ((base_units + i['a']) << 16)
    return b'#bundle\0' + struct.pack('>Q', tag) + struct.pack('>i', len(msg)) + msg


def tag2units(tag, offset):
    v = tag - offset
    if v % (1 << 16):
        raise NonDyadic('timetag %d' % tag)
    return v >> 16        # 2^-32 s units -> 2^-16 s units


# --------------------------------------------------------------------------- RT

def run_rt(S, prog):
    from harness import cosched
    from sc3.base.main import main
    from sc3.base import clock as clk
    from sc3.base.netaddr import NetAddr
    out = dict(id=prog['id'], mode='rt', prog=prog, score=[], rawscore=[], raw_complete=True, tail=0, rawsha='',
               broken=False)
    S.strategy = cosched.FifoStrategy()
    clk.SystemClock.clear()
    clk.AppClock.clear()
    S.settle(horizon=S.now)
    st = prog.get('strategy', {})
    base = main.elapsed_time()
    addr = NetAddr('127.0.0.1', 57110)
    R = Runner(prog, base, addr)
    if prog.get('points'):
        R.point = S.point
    offset = clk.SystemClock._elapsed_osc_offset
    base_units = exact(base, 'base')

    def capture(msg, target):
        d = bytes(msg.dgram)
        if d[:8] == b'#bundle\0':
            tag, els = rd_bundle(d)
            sk, stamp = ('i', 0) if tag == 1 else ('t', tag2units(tag - offset, 0) - base_units)
            subk, sub, sub2 = '-', 0, 0
            if len(els) > 1 and els[1][0] == 'b':
                t2 = els[1][1][0]
                subk, sub = ('i', 0) if t2 == 1 else ('t', tag2units(t2 - offset, 0) - base_units)
                e2 = els[1][1][1]
                if len(e2) > 1 and e2[1][0] == 'b':
                    sub2 = tag2units(e2[1][1][0] - offset, 0) - base_units
            who = R.cur()
            if who == 'user':
                # r2: the routine a clock thread happens to be inside of at this instant (the library's current
                # thread is one global)
                tt = main.current_tt
                r2 = ([k for k, v in R.routines.items() if v is tt] + [''])[0]
                R.ev.append(E('ubndl', r=who, tag=els[0][1][0], sk=sk, stamp=stamp, secs=R.user_now, r2=r2))
            else:
                R.ev.append(E('bndl', r=who, tag=els[0][1][0], sk=sk, stamp=stamp, subk=subk, sub=sub, sub2=sub2))
        else:
            a, args = rd_msg(d)
            subk, sub = '-', 0
            for x in args:
                if isinstance(x, bytes) and x[:8] == b'#bundle\0':
                    t2 = rd_bundle(x)[0]
                    subk, sub = ('i', 0) if t2 == 1 else ('t', tag2units(t2 - offset, 0) - base_units)
            R.ev.append(E('bndl', r=R.cur(), tag=a, sk='m', subk=subk, sub=sub))

    def cur():
        if S.cur.label == 'user':
            return 'user'
        if R.in_func:
            return R.in_func
        tt = main.current_tt
        for k, v in R.routines.items():
            if v is tt:
                return k
        return 'main'
    R.cur = cur
    R.in_user = False
    R.user_now = 0
    main._osc_interface._send = capture

    # incoming messages: a responder logs the time it is given
    from sc3.base.responders import OscFunc
    resp = []

    def on_recv(msg, time, addr_, port):
        R.ev.append(E('recv', r='user', tag=msg[0], secs=exact(time - base, 'recv time'), stamp=R.recv_now.get(msg[0], 0)))
    R.recv_now = {}

    def user_thread(ops):
        for i in ops:
            if i['c']:
                cosched._FakeTime.sleep(int(i['c']) / TU)
            if i['op'] == 'U':
                R.user_now = exact(main.elapsed_time() - base, 'user now')
                R.in_user = True
                try:
                    R.send('user', dict(i, op='S'))
                finally:
                    R.in_user = False
            elif i['op'] == 'UP':
                # a plain thread plays a routine without naming a clock: SystemClock, at the physical time of the call
                u = exact(main.elapsed_time() - base, 'user now')
                R.ev.append(E('uplay', r=i['s'], secs=u))
                R.routine(i['s']).play()
                if exact(main.elapsed_time() - base, 'user now') != u:
                    R.skip = 'time advanced inside a user-thread play()'      # cannot be written down: skipped
                R.ev.append(E('uplayed', r=i['s']))
            elif i['op'] == 'IN':
                R.recv_now[i['s']] = exact(main.elapsed_time() - base, 'recv now')
                main._osc_interface._handle_request(mk_dgram(i, offset, base_units), ('127.0.0.1', 57110))
    kind = st.get('kind', 'random')
    if kind == 'random':
        S.strategy = cosched.RandomStrategy(st.get('seed', 0), p_stay=st.get('p_stay', 0.0))
    elif kind == 'pct':
        S.strategy = cosched.PriorityStrategy(st.get('seed', 0))
    else:
        S.strategy = cosched.FifoStrategy()
    try:
        ins = [i for i in prog['main'] if i['op'] == 'IN']
        for i in ins:
            resp.append(OscFunc(on_recv, i['s']))
        with main._main_lock:       # the program's start is one instant
            R.run_main()
        uops = [i for i in prog['main'] if i['op'] in ('U', 'IN', 'UP')]
        if uops:
            S.spawn(lambda: user_thread(uops), 'user')
        S.settle(horizon=None)
        for f in resp:
            f.free()
        R.ev.append(E('end'))
    except (cosched.Deadlock, cosched.StepLimit) as e:
        R.ev.append(E('abort', tag=type(e).__name__))
        out['broken'] = True
    S.strategy = cosched.FifoStrategy()
    if not out['broken']:
        for name in prog['clocks']:
            c = R.clocks[name]
            try:
                if c.running():
                    c.stop()
            except Exception:
                pass
        S.settle(horizon=S.now)
    out['ev'] = [E('nondyadic', tag=R.skip)] if getattr(R, 'skip', None) else R.ev
    return out


if __name__ == '__main__':
    main_()
