"""Driver for C04: turn definition requests (records emitted by spec/Controls.tla) into real Python
graph functions, build them with the real SynthDef, decode the bytes and record what happened.

Input : {"cases": [{"id": int, "d": request, "calls": [{"args": [val...], "kw": [{"n","v"}...]}]}]}
        val = {"k": "s"|"l", "v": [int x8 ...]}
Output: {"traces": [{"id", "d", "ev": [{"op": "build", "o": {...}}, {"op": "call", ...}...]}]}
No verdicts here: TraceControls.tla decides.  The generated body writes every parameter channel to
its own Out on a distinct constant bus, so the decoded definition shows which control output the
body received for which parameter."""
import io
import json
import logging
import os
import pathlib
import tempfile
import sys

logging.disable(logging.CRITICAL)

import sc3
sc3.init('nrt')
from sc3.base.main import main
from sc3.synth.synthdef import SynthDef
from sc3.synth.ugens.inout import Out
from sc3.synth.spec import ControlSpec
from harness import scgf_ctl

S = scgf_ctl.SCALE


def num(v):
    """x8 integer -> Python literal value (int when integral)."""
    return v // S if v % S == 0 else v / S


def lit(v, ty=''):
    """Python literal of a x8 value; ty = i int | f float | b bool | '' (int when integral)"""
    if ty == 'b':
        assert v in (0, S), v
        return repr(v == S)
    if ty == 'f':
        return repr(v / S)
    if ty == 'i':
        assert v % S == 0, v
        return repr(v // S)
    return repr(num(v))


class Router:
    """What the generated bodies call for every parameter: records the shape received and writes
    each channel to its own bus."""

    def __init__(self):
        self.recv = []
        self.bus = 1000

    def __call__(self, name, val):
        if isinstance(val, list):
            kind, chans = 'l', list(val)
        elif isinstance(val, (int, float)) and not isinstance(val, bool):
            kind, chans = 'c', [val]
        elif hasattr(val, 'rate'):
            kind, chans = 's', [val]
        else:
            self.recv.append({'n': name, 'k': 'x:' + type(val).__name__, 'bus': []})
            return
        buses = []
        for ch in chans:
            self.bus += 1
            buses.append(self.bus * S)
            if getattr(ch, 'rate', None) == 'audio':
                Out.ar(self.bus, ch)
            else:
                Out.kr(self.bus, ch)
        self.recv.append({'n': name, 'k': kind, 'bus': buses})


def rates_of(params):
    out = []
    for p in params:
        if p['bk'] != 'ctl':
            continue
        ov = p['ov']
        if ov == 'absent':
            break
        if ov == 'None':
            out.append(None)
        elif ov == 'num':
            out.append(num(p['lag'][0]))
        elif ov == 'list':
            out.append([num(x) for x in p['lag']])
        else:
            out.append(ov)
    return out


def source(d):
    """Python source of all functions of the request; fn1 is the graph function."""
    funcs = d['funcs']
    src = []
    for k in range(len(funcs), 0, -1):          # children first (only names matter at call time)
        f = funcs[k - 1]
        ps = []
        for p in f['params']:
            s = p['n']
            if p['bk'] == 'ctl':
                if p['an'] != 'none':
                    s += ': %r' % p['an']
                ty = p.get('dty') or [''] * len(p['dv'])
                if p['dk'] == 'None':
                    s += '=None'
                elif p['dk'] == 'scalar':
                    s += '=' + lit(p['dv'][0], ty[0])
                elif p['dk'] == 'tuple':
                    s += '=(' + ''.join(lit(x, t) + ', ' for x, t in zip(p['dv'], ty)) + ')'
            ps.append(s)
        body = ['    _route(%r, %s)' % (p['n'], p['n']) for p in f['params']]
        for c in range(1, len(funcs) + 1):
            if funcs[c - 1]['parent'] == k:
                body.append('    SynthDef.wrap(fn%d, %s)' % (c, wrap_args(funcs[c - 1])))
        src.append('def fn%d(%s):\n%s\n' % (k, ', '.join(ps), '\n'.join(body or ['    pass'])))
    return '\n'.join(src)


def call_args(f):
    kw = {}
    r = rates_of(f['params'])
    if r:
        kw['rates'] = r
    pre = [num(p['bv']) for p in f['params'] if p['bk'] == 'bound']
    if pre:
        kw['prepend'] = pre
    return kw


def wrap_args(f):
    return ', '.join('%s=%r' % kv for kv in call_args(f).items())


def Spec(default):     # SynthDef only reads .default; store() serialises the whole spec
    return ControlSpec(-100000, 100000, default=default)


def build(d):
    router = Router()
    ns = {'SynthDef': SynthDef, '_route': router}
    exec(source(d), ns)
    kw = call_args(d['funcs'][0])
    specs = {p['n']: Spec(num(p['sv'])) for f in d['funcs'] for p in f['params'] if p['sk'] == 'spec'}
    if specs:
        kw['metadata'] = {'specs': specs}
    if d['variants']:
        kw['variants'] = {v['n']: {a['n']: (num(a['v'][0]) if len(a['v']) == 1 else [num(x) for x in a['v']])
                                   for a in v['set']} for v in d['variants']}
    o = {'raised': '', 'name': '', 'ctl': [], 'names': [], 'units': [], 'variants': [], 'recv': []}
    sd = None
    sers = []
    try:
        sd = SynthDef(d['name'], ns['fn1'], **kw)
    except Exception as e:
        o['raised'] = describe(e)
    o['recv'] = router.recv
    if sd is not None:
        # the serialisation history of the request, all on this one definition object
        for k, how in enumerate(d.get('hist') or ['as_bytes']):
            oo = o if k == 0 else {'raised': '', 'name': '', 'ctl': [], 'names': [], 'units': [], 'variants': []}
            try:
                oo.update(decode(serialise(sd, how)))
            except scgf_ctl.ScgfError:
                raise
            except Exception as e:
                oo['raised'] = describe(e)
            if k:
                sers.append({'op': 'ser', 'how': how, 'o': oo})
        if o['raised']:
            sd = None
    return sd, o, sers


def describe(e):
    c = e.__cause__
    return ('%s: %s' % (type(e).__name__, e))[:160] + ((' <- %s: %s' % (type(c).__name__, c))[:160] if c else '')


def serialise(sd, how):
    if how == 'as_bytes':
        mv = sd.as_bytes()
        raw = bytes(mv)
        if isinstance(mv, memoryview):      # old trees kept a view of a dead BytesIO (crashes a later cyclic GC)
            mv.release()
            sd._bytes = None
        return raw
    if how == 'write':                      # what store/load/_write_def_file do
        s = io.BytesIO()
        SynthDef._write_def_list([sd], s)
        return s.getvalue()
    if how == 'store':
        with tempfile.TemporaryDirectory(prefix='c04store') as tmp:
            sd.store(dir=tmp)
            return (pathlib.Path(tmp) / (sd.name + '.scsyndef')).read_bytes()
    raise AssertionError(how)


def decode(raw):
    defs = scgf_ctl.parse(raw)
    assert len(defs) == 1
    oo = scgf_ctl.project(defs[0])
    oo.pop('consts')
    for u in oo['units']:
        u.pop('outs')
    return oo


def pyval(v):
    return num(v['v'][0]) if v['k'] == 's' else [num(x) for x in v['v']]


def decode_pairs(tail):
    """['a', 1, 'b', '[', 2, 3, ']'] -> [{n, v: {k, v}}]"""
    out, i = [], 0
    while i < len(tail):
        name = tail[i]
        i += 1
        if i < len(tail) and tail[i] == '[':
            j = tail.index(']', i)
            out.append({'n': str(name), 'v': {'k': 'l', 'v': [scgf_ctl.scaled(x) for x in tail[i + 1:j]]}})
            i = j + 1
        else:
            out.append({'n': str(name), 'v': {'k': 's', 'v': [scgf_ctl.scaled(tail[i])]}})
            i += 1
    return out


def main_():
    inp = json.load(open(sys.argv[1]))
    traces, pending = [], []
    for case in inp['cases']:
        d = case['d']
        sd, o, sers = build(d)
        ev = [{'op': 'build', 'o': o}] + sers
        for c in case.get('calls', []) if sd is not None else []:
            e = {'op': 'call', 'args': c['args'], 'kw': c['kw'], 'cmd': '', 'defname': '', 'pairs': []}
            try:
                node = sd(*[pyval(v) for v in c['args']], **{a['n']: pyval(a['v']) for a in c['kw']})
                pending.append((node.node_id, e))
            except Exception as ex:
                e['cmd'] = 'exc:%s: %s' % (type(ex).__name__, ex)
            ev.append(e)
        traces.append({'id': case['id'], 'd': d, 'ev': ev})
    if pending:
        score = main.process()
        by_id = {}
        for entry in score.list:
            for msg in entry[1:]:
                if msg and msg[0] == '/s_new':
                    by_id[msg[2]] = msg
        for nid, e in pending:
            msg = by_id.get(nid)
            if msg is None:
                e['cmd'] = 'no /s_new in score'
                continue
            e['cmd'], e['defname'] = str(msg[0]), str(msg[1])
            e['pairs'] = decode_pairs(list(msg[5:]))
    json.dump({'traces': traces}, open(sys.argv[2], 'w'))


if __name__ == '__main__':
    assert os.path.realpath(sc3.__file__).startswith(os.path.realpath(os.environ.get('SC3_REPO', '/repo'))), sc3.__file__
    main_()
