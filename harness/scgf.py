"""Independent reader for SuperCollider "SCgf" synth definition files, version 2.

Written from the file-format description (SuperCollider "Synth Definition File Format"), not from
sc3's writer or reader.  It only *projects* bytes to a structure; it decides nothing.

    parse(data) -> dict(
        ok        1 when one complete version-2 file with exactly the declared defs was read and
                  every byte was consumed, else 0
        err       '' or the reason the reader stopped (errc: its short class), off = byte offset where it stopped
        total     len(data), consumed = bytes consumed
        magic, version, ndefs
        defs      [ def ... ]   (as many as could be read)
    )
    def = dict(name, name_bytes[list of ints], consts[c...], ctl[c...], names[{n, i}], units[unit...],
               variants[{n, v[c...]}])
    unit = dict(c class name, r rate byte, sp special index, ins [[u, o], ...] (u = -1: constant o),
                outs [rate bytes], nin, nout (declared counts))
    c (a float32) = dict(x 1 if the value is an integer with |v| < 2**24 else 0, v that integer or 0,
                         hi, lo: the two 16-bit halves of the IEEE bit pattern)

All numbers are Python ints so that the structure can be handed to TLC as JSON."""
import struct


class _Stop(Exception):
    pass


class _R:
    def __init__(self, data):
        self.d = bytes(data)
        self.p = 0

    def take(self, n, what):
        if n < 0 or self.p + n > len(self.d):
            raise _Stop('truncated: %s needs %d bytes at offset %d of %d' % (what, n, self.p, len(self.d)))
        b = self.d[self.p:self.p + n]
        self.p += n
        return b

    def i8(self, what):
        return struct.unpack('>b', self.take(1, what))[0]

    def u8(self, what):
        return self.take(1, what)[0]

    def i16(self, what):
        return struct.unpack('>h', self.take(2, what))[0]

    def i32(self, what):
        return struct.unpack('>i', self.take(4, what))[0]

    def f32(self, what):
        return f32_project(self.take(4, what))

    def pstr(self, what):
        n = self.u8(what + ' length')
        b = self.take(n, what)
        return b.decode('latin-1'), list(b)


def f32_project(b4):
    bits = struct.unpack('>I', b4)[0]
    v = struct.unpack('>f', b4)[0]
    exact = 0
    iv = 0
    if v == v and v not in (float('inf'), float('-inf')) and v == int(v) and abs(v) < 2 ** 24:
        exact = 1
        iv = int(v)
    return dict(x=exact, v=iv, hi=bits >> 16, lo=bits & 0xFFFF)


def f32_of_number(x):
    """projection of a Python number the way a float32 field would hold it (for defaults etc.)"""
    try:
        return f32_project(struct.pack('>f', float(x)))
    except (OverflowError, ValueError, TypeError):
        return dict(x=0, v=0, hi=0x7FC0, lo=0)


MAX_COUNT = 1 << 20     # sanity bound on declared counts so a corrupt length cannot exhaust memory


def _count(r, what, kind='i32'):
    n = r.i32(what) if kind == 'i32' else r.i16(what)
    if n < 0 or n > MAX_COUNT:
        raise _Stop('bad count: %s = %d at offset %d' % (what, n, r.p))
    return n


def _read_def(r, out):
    d = dict(name='', name_bytes=[], consts=[], ctl=[], names=[], units=[], variants=[])
    out.append(d)
    d['name'], d['name_bytes'] = r.pstr('def name')
    for i in range(_count(r, 'constant count')):
        d['consts'].append(r.f32('constant %d' % i))
    np_ = _count(r, 'control count')
    for i in range(np_):
        d['ctl'].append(r.f32('control default %d' % i))
    for i in range(_count(r, 'control name count')):
        n, _b = r.pstr('control name %d' % i)
        d['names'].append(dict(n=n, i=r.i32('control name index %d' % i)))
    for i in range(_count(r, 'unit count')):
        u = dict(c='', r=0, sp=0, ins=[], outs=[], nin=0, nout=0)
        d['units'].append(u)
        u['c'], _b = r.pstr('unit %d class' % i)
        u['r'] = r.i8('unit %d rate' % i)
        u['nin'] = _count(r, 'unit %d input count' % i)
        u['nout'] = _count(r, 'unit %d output count' % i)
        u['sp'] = r.i16('unit %d special index' % i)
        for j in range(u['nin']):
            a = r.i32('unit %d input %d' % (i, j))
            b = r.i32('unit %d input %d' % (i, j))
            u['ins'].append([a, b])
        for j in range(u['nout']):
            u['outs'].append(r.i8('unit %d output %d rate' % (i, j)))
    for i in range(_count(r, 'variant count', 'i16')):
        n, _b = r.pstr('variant %d name' % i)
        d['variants'].append(dict(n=n, v=[r.f32('variant %d value %d' % (i, j)) for j in range(np_)]))


def parse(data):
    r = _R(data)
    res = dict(ok=0, err='', errc='', off=0, total=len(r.d), consumed=0, magic='', version=-1, ndefs=-1, defs=[])
    try:
        res['magic'] = r.take(4, 'magic').decode('latin-1')
        if res['magic'] != 'SCgf':
            raise _Stop('bad magic')
        res['version'] = r.i32('version')
        if res['version'] != 2:
            raise _Stop('unsupported version %d' % res['version'])
        res['ndefs'] = r.i16('def count')
        if res['ndefs'] < 0:
            raise _Stop('bad def count')
        for _ in range(res['ndefs']):
            _read_def(r, res['defs'])
        if r.p != len(r.d):
            raise _Stop('trailing bytes: %d after the last definition' % (len(r.d) - r.p))
        res['ok'] = 1
    except _Stop as e:
        res['err'] = str(e)
        res['errc'] = str(e).split(':')[0].split(' needs')[0].replace(' ', '-')[:24]     # short class of the error
    res['off'] = r.p
    res['consumed'] = r.p
    return res


EMPTY_DEF = dict(name='', name_bytes=[], consts=[], ctl=[], names=[], units=[], variants=[])
