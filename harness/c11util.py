"""Helpers of the C11/C12 checks (not shared machinery)."""
import os

from . import tlc
from .common import MachineryError


def model_check_in(ctx, sub, module, cfg, *, label=None, **kw):
    """ctx.model_check for runs that execute concurrently: harness.tlc.run derives its metadir from
    (module, pid), so concurrent runs of one module must get their own work directories."""
    wd = os.path.join(ctx.work, sub)
    r = tlc.run(module, cfg, wd, **kw)
    run = dict(module=module, cfg=cfg, **r.summary())
    if label:
        run['label'] = label
    ctx.cov['model_runs'].append(run)
    ctx.cov['states'] += r.distinct
    ctx.cov['transitions'] += r.generated
    return r


def require_actions(r, actions, what):
    for a in actions:
        if r.coverage.get(a, (0, 0))[1] == 0:
            raise MachineryError('vacuity: action %s never taken in %s' % (a, what))
