"""Run TLC / SANY and parse what they print.  Stdlib only."""
import os
import re
import shutil
import subprocess
import time

JAR_CP = '/opt/veriftools/tla/tla2tools.jar:/opt/veriftools/tla/CommunityModules-deps.jar'
SPEC_DIR = os.path.join(os.path.dirname(os.path.dirname(os.path.abspath(__file__))), 'spec')


class TlcError(Exception):
    """Machinery failure (parse error, timeout, crash) - never a property verdict."""


class TlcResult:
    def __init__(self):
        self.generated = 0      # "states generated"  (= transitions explored)
        self.distinct = 0       # "distinct states found"
        self.depth = 0
        self.ok = False         # "No error has been found"
        self.violated = []      # names of violated invariants / properties
        self.deadlock = False
        self.output = ''
        self.wall = 0.0
        self.coverage = {}      # action name -> (distinct, total) when -coverage on
        self.prints = []        # PrintT lines that look like <<...>> or "..."
        self.cmd = ''

    def summary(self):
        return dict(states=self.distinct, transitions=self.generated, depth=self.depth,
                    ok=self.ok, violated=self.violated, wall_s=round(self.wall, 2))


_re_states = re.compile(r'(\d+) states generated, (\d+) distinct states found, (\d+) states left')
_re_depth = re.compile(r'depth of the complete state graph search is (\d+)')
_re_inv = re.compile(r'Invariant (\S+) is violated')
_re_prop = re.compile(r'(?:Action property|Temporal properties?|property) (\S+)? ?(?:is|were) violated', re.I)
_re_cov = re.compile(r"^<(\w+) line \d+, col \d+ to line \d+, col \d+ of module (\w+)(?: \([\d ]+\))?>: (\d+):(\d+)", re.M)


def run(module, cfg, workdir, *, workers=16, timeout=600, env=None, extra=(), coverage=False,
        deadlock=False, simulate=None, depth=None, seed=None, cont=False, heap='4g'):
    """Run TLC on spec/<module>.tla with spec/<cfg>.  Returns TlcResult.

    workdir receives the metadir (states) and is what callers clean up."""
    os.makedirs(workdir, exist_ok=True)
    meta = os.path.join(workdir, 'meta_%s_%d' % (module, os.getpid()))
    shutil.rmtree(meta, ignore_errors=True)
    cmd = ['java', '-XX:+UseParallelGC', '-Xmx' + heap, '-cp', JAR_CP, 'tlc2.TLC',
           '-workers', str(workers), '-metadir', meta, '-noGenerateSpecTE',
           '-config', cfg if os.path.isabs(cfg) else os.path.join(SPEC_DIR, cfg)]
    if not deadlock:
        cmd += ['-deadlock']        # -deadlock = do NOT check deadlock
    if coverage:
        cmd += ['-coverage', '1']
    if simulate is not None:
        cmd += ['-simulate', simulate]
    if depth is not None:
        cmd += ['-depth', str(depth)]
    if seed is not None:
        cmd += ['-seed', str(seed)]
    if cont:
        cmd += ['-continue']
    cmd += list(extra)
    cmd += [module if os.path.isabs(module) else os.path.join(SPEC_DIR, module + '.tla')]
    e = dict(os.environ)
    e.pop('JAVA_TOOL_OPTIONS', None)
    if env:
        e.update({k: str(v) for k, v in env.items()})
    t0 = time.time()
    try:
        p = subprocess.run(cmd, cwd=SPEC_DIR, env=e, stdout=subprocess.PIPE, stderr=subprocess.STDOUT,
                           timeout=timeout, text=True, errors='replace')
    except subprocess.TimeoutExpired as ex:
        shutil.rmtree(meta, ignore_errors=True)
        if simulate is not None:
            # simulation runs until stopped: a timeout is the normal way out
            out = ex.stdout if isinstance(ex.stdout, str) else (ex.stdout or b'').decode('utf8', 'replace')
            r = _parse(out)
            r.ok = not r.violated and 'Error:' not in out
            r.wall = time.time() - t0
            r.cmd = ' '.join(cmd)
            return r
        raise TlcError('TLC timeout after %ss: %s' % (timeout, ' '.join(cmd)))
    finally:
        shutil.rmtree(meta, ignore_errors=True)
    r = _parse(p.stdout)
    r.wall = time.time() - t0
    r.cmd = ' '.join(cmd)
    r.returncode = p.returncode
    if simulate is not None and not r.violated and 'Error:' not in p.stdout and p.returncode == 0:
        r.ok = True
        m = re.search(r'The number of states generated: (\d+)', p.stdout)
        if m:
            r.generated = int(m.group(1))
    if not r.ok and not r.violated and not r.deadlock:
        k = max(0, p.stdout.find('Error:'))
        raise TlcError('TLC failed (rc=%s):\n%s\n...\n%s' % (p.returncode, p.stdout[k:k + 2500], p.stdout[-600:]))
    return r


def _parse(out):
    r = TlcResult()
    r.output = out
    m = None
    for m in _re_states.finditer(out):
        pass
    if m:
        r.generated, r.distinct = int(m.group(1)), int(m.group(2))
    m = _re_depth.search(out)
    if m:
        r.depth = int(m.group(1))
    r.ok = 'No error has been found' in out
    r.violated = _re_inv.findall(out)
    for m in re.finditer(r'Action property (\S+) is violated|Temporal propert(?:y (\S+) was|ies were) violated', out):
        r.violated.append(m.group(1) or m.group(2) or 'temporal')
    if 'Assumption' in out and 'is false' in out:
        r.violated.append('ASSUME')
    r.deadlock = 'Deadlock reached' in out
    for m in _re_cov.finditer(out):
        name = m.group(1)
        d, t = int(m.group(3)), int(m.group(4))
        a = r.coverage.get(name, (0, 0))
        r.coverage[name] = (a[0] + d, a[1] + t)
    return r


def sany(path):
    p = subprocess.run(['java', '-cp', JAR_CP, 'tla2sany.SANY', path], cwd=os.path.dirname(path),
                       stdout=subprocess.PIPE, stderr=subprocess.STDOUT, text=True)
    ok = p.returncode == 0 and 'Semantic errors' not in p.stdout and 'Parse Error' not in p.stdout \
        and 'Fatal' not in p.stdout and '*** Errors' not in p.stdout
    return ok, p.stdout


# --------------------------------------------------------------------------
# parsing TLA+ values printed by TLC (PrintT, counterexample states)

def parse_value(s):
    """Parse a TLA+ value as TLC prints it into Python (tuples->list, records->dict, sets->list)."""
    v, i = _pv(s, _ws(s, 0))
    return v


def _ws(s, i):
    n = len(s)
    while i < n and s[i] in ' \t\r\n':
        i += 1
    return i


def _pv(s, i):
    n = len(s)
    c = s[i]
    if s.startswith('<<', i):
        i = _ws(s, i + 2)
        out = []
        while not s.startswith('>>', i):
            v, i = _pv(s, i)
            out.append(v)
            i = _ws(s, i)
            if s[i] == ',':
                i = _ws(s, i + 1)
        return out, i + 2
    if c == '{':
        i = _ws(s, i + 1)
        out = []
        while s[i] != '}':
            v, i = _pv(s, i)
            out.append(v)
            i = _ws(s, i)
            if s[i] == ',':
                i = _ws(s, i + 1)
        return out, i + 1
    if c == '[':
        i = _ws(s, i + 1)
        out = {}
        while s[i] != ']':
            j = i
            while s[j] not in ' |\t\n':
                j += 1
            key = s[i:j]
            i = _ws(s, j)
            assert s.startswith('|->', i), s[i:i + 20]
            v, i = _pv(s, _ws(s, i + 3))
            out[key] = v
            i = _ws(s, i)
            if s[i] == ',':
                i = _ws(s, i + 1)
        return out, i + 1
    if c == '(':
        # function printed as (a :> 1 @@ b :> 2)
        i = _ws(s, i + 1)
        out = {}
        while s[i] != ')':
            k, i = _pv(s, i)
            i = _ws(s, i)
            assert s.startswith(':>', i)
            v, i = _pv(s, _ws(s, i + 2))
            out[k if isinstance(k, (str, int)) else repr(k)] = v
            i = _ws(s, i)
            if s.startswith('@@', i):
                i = _ws(s, i + 2)
        return out, i + 1
    if c == '"':
        j = i + 1
        buf = []
        while s[j] != '"':
            if s[j] == '\\':
                j += 1
                buf.append({'n': '\n', 't': '\t', '"': '"', '\\': '\\'}.get(s[j], s[j]))
            else:
                buf.append(s[j])
            j += 1
        return ''.join(buf), j + 1
    j = i
    while j < n and (s[j].isalnum() or s[j] in '_-'):
        j += 1
    tok = s[i:j]
    if tok in ('TRUE', 'FALSE'):
        return tok == 'TRUE', j
    try:
        return int(tok), j
    except ValueError:
        return tok, j


def counterexample_states(out):
    """Return list of (action label, {var: value}) from an error trace in TLC output."""
    states = []
    for m in re.finditer(r'^State (\d+): (<[^\n]*>|[^\n]*)\n((?:(?!^State \d+:|^\d+ states generated|^Error|^Finished|^The |^Worker|^Progress).*\n)*)',
                         out, re.M):
        label = m.group(2)
        body = m.group(3)
        vars_ = {}
        for vm in re.finditer(r'^/\\ (\w+) = ((?:.|\n(?!/\\ \w+ = ))*)', body, re.M):
            try:
                vars_[vm.group(1)] = parse_value(vm.group(2).strip())
            except Exception:
                vars_[vm.group(1)] = vm.group(2).strip()
        states.append((label, vars_))
    return states


def simulate_behaviours(module, cfg, workdir, *, num, depth, seed=0, timeout=300, env=None, workers=1):
    """Run `tlc -simulate file=...,num=N -depth D` and parse every behaviour file.
    Returns list of behaviours; a behaviour is a list of (action name, {var: value})."""
    d = os.path.join(workdir, 'sim_%s_%d' % (module, seed))
    shutil.rmtree(d, ignore_errors=True)
    os.makedirs(d)
    r = run(module, cfg, workdir, workers=workers, timeout=timeout, env=env,
            simulate='file=%s/tr,num=%d' % (d, num), depth=depth, seed=seed)
    behs = []
    for fn in sorted(os.listdir(d)):
        with open(os.path.join(d, fn)) as f:
            behs.append(parse_behaviour(f.read()))
    shutil.rmtree(d, ignore_errors=True)
    return behs, r


def parse_behaviour(text):
    out = []
    for m in re.finditer(r'\\\* <(\w+)[^\n]*>\nSTATE_\d+ == \n((?:.*\n)*?)\n', text + '\n\n'):
        act = m.group(1)
        vars_ = {}
        for vm in re.finditer(r'^/\\ (\w+) = ((?:.|\n(?!/\\ \w+ = ))*)', m.group(2), re.M):
            vars_[vm.group(1)] = parse_value(vm.group(2).strip())
        out.append((act, vars_))
    return out
