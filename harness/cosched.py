"""cosched - controlled cooperative scheduler + virtual time for sc3's real-time clocks.

sc3's RT clocks are real threads synchronised with threading.Condition objects.  The modules
reference `threading` and `time` through module globals, so (without touching /repo) we replace
those globals with the stand-ins below *before* sc3.init('rt').  Every managed thread is a real OS
thread, but only the holder of the baton runs.  Yield points are exactly the operations the TLA+
clock specs model as actions: lock acquire / outermost release, Condition.wait begin (atomically
releases) / wake-up + re-acquire, thread start / exit / join, sleep.  At each yield point a
*strategy* picks the next enabled thread or lets virtual time pass.  Fake primitives log events
under the baton (= at the linearization point), so traces need no source hooks.

Usage (driver, main thread):
    S = cosched.install(strategy)        # before sc3.init
    sc3.init('rt', 'CRITICAL')
    S.spawn(fn, 'user1')                 # extra managed threads
    S.settle(horizon=10.0)               # main idles until nothing else can run before `horizon`
"""
import random
import threading as _rt
import time as _rtime
import types

EPOCH = 1024.0
SPIN = 1.0 / 65536      # virtual time consumed by a wait that does not block


class Deadlock(Exception):
    pass


class StepLimit(Exception):
    pass


class MThread:
    def __init__(self, sched, label, fake=None):
        self.sched = sched
        self.ix = len(sched.threads)
        self.name = 'T%d' % self.ix
        self.label = label
        self.state = 'ready'      # ready | lock | wait | sleep | join | idle | done
        self.sem = _rt.Semaphore(0)
        self.wait_lock = None
        self.deadline = None
        self.notified = False
        self.join_target = None
        self.horizon = None
        self.fake = fake
        self.seq = 0
        self.exc = None

    def __repr__(self):
        return '<%s %s %s>' % (self.name, self.label, self.state)


class Sched:
    def __init__(self, strategy, max_steps=2_000_000):
        self.strategy = strategy
        self.now = 0.0
        self.threads = []
        self.by_ident = {}
        self.cur = None
        self.steps = 0
        self.max_steps = max_steps
        self.log = []          # event dicts
        self.log_on = False
        self.dead = None
        self.names = {}        # id(obj) -> stable name of locks / conditions
        self.decisions = []    # (kind, options, chosen) for replay / DFS
        self.until = None      # predicate: stop settling as soon as it holds (directed replay of model behaviours)
        main = MThread(self, 'main')
        self.threads.append(main)
        self.by_ident[_rt.get_ident()] = main
        self.cur = main
        self.main = main
        main.fake = FakeThread(_main=main)

    # ------------------------------------------------------------ naming / logging
    def name_of(self, obj, kind):
        k = id(obj)
        if k not in self.names:
            self.names[k] = '%s%d' % (kind, sum(1 for v in self.names.values() if v.startswith(kind)))
        return self.names[k]

    def set_name(self, obj, name):
        self.names[id(obj)] = name

    def emit(self, op, **kw):
        if not self.log_on:
            return
        me = self.me()
        me.seq += 1
        ev = dict(i=len(self.log), th=me.name, seq=me.seq, op=op, now=self.now)
        ev.update(kw)
        self.log.append(ev)

    # ------------------------------------------------------------ core
    def me(self):
        t = self.by_ident.get(_rt.get_ident())
        if t is None:
            raise RuntimeError('unmanaged OS thread %r entered a managed primitive' % _rt.current_thread().name)
        if t is not self.cur:
            raise RuntimeError('thread %r runs without the baton (cur=%r)' % (t, self.cur))
        return t

    def _enabled(self, t):
        s = t.state
        if s == 'ready':
            return True
        if s == 'lock':
            return t.wait_lock.owner is None
        if s == 'wait':
            return t.notified or (t.deadline is not None and self.now >= t.deadline)
        if s == 'sleep':
            return self.now >= t.deadline
        if s == 'join':
            return t.join_target.state == 'done'
        return False

    def _next_deadline(self):
        ds = [t.deadline for t in self.threads
              if t.state in ('wait', 'sleep') and t.deadline is not None and not (t.state == 'wait' and t.notified)]
        return min(ds) if ds else None

    def _pick(self):
        """Decide who runs next.  Returns an MThread."""
        while True:
            self.steps += 1
            if self.steps > self.max_steps:
                self.dead = 'step limit'
                return self.main
            if self.until is not None and self.main.state == 'idle' and self.until():
                return self.main         # directed replay: hand the baton back as soon as the awaited event happened
            en = [t for t in self.threads if t.state != 'idle' and self._enabled(t)]
            nd = self._next_deadline()
            idle = [t for t in self.threads if t.state == 'idle']
            if en:
                c = self.strategy.choose(self, en, nd)
                if c is None:
                    self.dead = 'directed: %s not enabled (enabled: %s)' % (getattr(self.strategy, 'target', '?'), [t.name for t in en])
                    return self.main
                if isinstance(c, tuple):      # ('tick', new_now): let time pass although threads could run
                    self._tick(c[1])
                    continue
                return c
            # nobody can run now: time passes, or the idle main thread takes over
            if idle:
                m = idle[0]
                if nd is None or (m.horizon is not None and nd > m.horizon):
                    if m.horizon is not None and nd is not None and self.now < m.horizon:
                        self._tick(m.horizon)
                    return m
            if nd is None:
                self.dead = 'deadlock: ' + ', '.join(repr(t) for t in self.threads if t.state != 'done')
                return self.main
            late = self.strategy.lateness(self, nd)
            if late is None:
                self.dead = 'directed: nobody enabled and no tick requested'
                return self.main
            self._tick(nd + late)

    def _tick(self, t):
        if t > self.now:
            self.now = t
            if self.log_on:
                self.log.append(dict(i=len(self.log), th='-', seq=0, op='tick', now=self.now))

    def _yield(self):
        """Called by the baton holder after it has set its own state."""
        me = self.cur
        nxt = self._pick()
        if nxt is me:
            if self.dead and me is self.main:
                self._raise_dead()
            return
        self.cur = nxt
        nxt.sem.release()
        me.sem.acquire()
        # resumed: we hold the baton again
        if self.dead and me is self.main:
            self._raise_dead()

    def _raise_dead(self):
        d, self.dead = self.dead, None
        self.main.state = 'ready'
        if d == 'step limit':
            raise StepLimit(d)
        raise Deadlock(d)

    def point(self):
        """plain preemption point"""
        me = self.me()
        me.state = 'ready'
        self._yield()

    # ------------------------------------------------------------ driver API
    def spawn(self, fn, label, *args):
        th = FakeThread(target=fn, name=label, args=args, daemon=True)
        th.start()
        return th

    def settle(self, horizon=None, until=None):
        """Main thread gives the baton away until no other thread can run and no timer fires
        at or before `horizon` (virtual seconds; None = until no timers at all), or until `until()` holds."""
        me = self.me()
        assert me is self.main
        if until is not None and until():
            return
        me.state = 'idle'
        me.horizon = horizon
        self.until = until
        try:
            self._yield()
        finally:
            self.until = None
        me.state = 'ready'

    def sleep(self, d):
        me = self.me()
        me.state = 'sleep'
        me.deadline = self.now + max(0.0, d)
        self._yield()
        me.state = 'ready'
        me.deadline = None


SCHED = None


def S():
    return SCHED


# ---------------------------------------------------------------- fake primitives

class FakeRLock:
    _reentrant = True

    def __init__(self):
        self.owner = None
        self.count = 0

    def _name(self):
        return SCHED.name_of(self, 'L')

    def acquire(self, blocking=True, timeout=-1):
        s = SCHED
        me = s.me()
        if self.owner is me:
            if not self._reentrant:
                if not blocking:
                    return False
                raise Deadlock('self-deadlock on non-reentrant lock %s by %r' % (self._name(), me))
            self.count += 1
            return True
        s.point()                       # may be preempted before trying
        if self.owner is not None and not blocking:
            return False
        while self.owner is not None:
            me.state = 'lock'
            me.wait_lock = self
            s._yield()
        me.state = 'ready'
        me.wait_lock = None
        self.owner = me
        self.count = 1
        s.emit('acq', lock=self._name())
        return True

    def release(self):
        s = SCHED
        me = s.me()
        if self.owner is not me:
            raise RuntimeError('cannot release un-acquired lock')
        self.count -= 1
        if self.count == 0:
            self.owner = None
            s.emit('rel', lock=self._name())
            s.point()

    __enter__ = acquire

    def __exit__(self, *a):
        self.release()

    def locked(self):
        return self.owner is not None

    def _is_owned(self):
        return self.owner is SCHED.me()


class FakeLock(FakeRLock):
    _reentrant = False


class FakeCondition:
    def __init__(self, lock=None):
        self._lock = lock if lock is not None else FakeRLock()
        self.waiters = []
        self.acquire = self._lock.acquire
        self.release = self._lock.release

    def _name(self):
        return SCHED.name_of(self, 'C')

    def __enter__(self):
        return self._lock.acquire()

    def __exit__(self, *a):
        self._lock.release()

    def wait(self, timeout=None):
        s = SCHED
        me = s.me()
        lk = self._lock
        if lk.owner is not me:
            raise RuntimeError('cannot wait on un-acquired lock')
        saved = lk.count
        lk.owner = None
        lk.count = 0
        me.state = 'wait'
        me.notified = False
        if timeout is not None and timeout <= 0:
            # a non-blocking wait still takes time: a thread polling in a loop must see the clock advance
            me.spins = min(getattr(me, 'spins', 0) + 1, 10)
            s._tick(s.now + SPIN * (1 << me.spins))
        else:
            me.spins = 0
        me.deadline = None if timeout is None else s.now + max(timeout, 0.0)
        self.waiters.append(me)
        s.emit('wait', cond=self._name(), lock=lk._name(),
               timeout=None if timeout is None else timeout, deadline=me.deadline)
        s._yield()
        if me in self.waiters:
            self.waiters.remove(me)
        res = me.notified
        me.deadline = None
        me.notified = False
        while lk.owner is not None:
            me.state = 'lock'
            me.wait_lock = lk
            s._yield()
        me.state = 'ready'
        me.wait_lock = None
        lk.owner = me
        lk.count = saved
        s.emit('wake', cond=self._name(), lock=lk._name(), notified=res)
        return res

    def wait_for(self, predicate, timeout=None):
        end = None if timeout is None else SCHED.now + timeout
        r = predicate()
        while not r:
            if end is not None:
                left = end - SCHED.now
                if left <= 0:
                    break
                self.wait(left)
            else:
                self.wait()
            r = predicate()
        return r

    def notify(self, n=1):
        s = SCHED
        me = s.me()
        if self._lock.owner is not me:
            raise RuntimeError('cannot notify on un-acquired lock')
        k = []
        for t in list(self.waiters):
            if len(k) >= n:
                break
            t.notified = True
            self.waiters.remove(t)
            k.append(t.name)
        s.emit('notify', cond=self._name(), woken=k)

    def notify_all(self):
        self.notify(len(self.waiters) + 1)

    notifyAll = notify_all


class FakeThread:
    def __init__(self, group=None, target=None, name=None, args=(), kwargs=None, daemon=None, _main=None):
        self._target = target
        self._args = args
        self._kwargs = kwargs or {}
        self.name = name or 'Thread'
        self.daemon = daemon
        self._m = _main
        self._real = None

    @property
    def ident(self):
        return self._m.ix if self._m else None

    def start(self):
        s = SCHED
        s.me()
        m = MThread(s, self.name, self)
        self._m = m
        s.threads.append(m)

        def boot():
            m.sem.acquire()
            try:
                self._target(*self._args, **self._kwargs)
            except BaseException as e:     # noqa - recorded; a managed thread must always hand the baton on
                m.exc = e
            finally:
                m.state = 'done'
                s.emit('exit')
                nxt = s._pick()
                s.cur = nxt
                nxt.sem.release()

        r = _rt.Thread(target=boot, name='cosched-' + m.name, daemon=True)
        self._real = r
        r.start()
        s.by_ident[r.ident] = m
        s.emit('start', child=m.name, label=self.name)
        s.point()

    def join(self, timeout=None):
        s = SCHED
        me = s.me()
        if self._m is None or self._m.state == 'done':
            return
        me.state = 'join'
        me.join_target = self._m
        s._yield()
        me.state = 'ready'

    def is_alive(self):
        return self._m is not None and self._m.state != 'done'


def _current_thread():
    return SCHED.me().fake


def _main_thread():
    return SCHED.main.fake


class _FakeTime:
    @staticmethod
    def time():
        return EPOCH + SCHED.now

    monotonic = time
    perf_counter = time

    @staticmethod
    def sleep(d):
        SCHED.sleep(d)


fake_threading = types.SimpleNamespace(
    RLock=FakeRLock, Lock=FakeLock, Condition=FakeCondition, Thread=FakeThread,
    current_thread=_current_thread, main_thread=_main_thread, get_ident=lambda: SCHED.me().ix)


def install(strategy, max_steps=2_000_000, port_base=None):
    """Patch sc3 module globals; call before sc3.init('rt')."""
    global SCHED
    import os
    import sc3
    sc3.LIB_PORT = port_base or (20000 + (os.getpid() * 7) % 30000)
    sc3.LIB_PORT_RANGE = 200
    import sc3.base.main as m
    import sc3.base.clock as c
    SCHED = Sched(strategy, max_steps)
    m.threading = fake_threading
    c.threading = fake_threading
    m.time = _FakeTime
    for cls in (m.RtMain, m.NrtMain):
        cls._main_lock = FakeRLock()
        cls._def_build_lock = FakeLock()
    SCHED.set_name(m.RtMain._main_lock, 'Lmain')
    return SCHED


# ---------------------------------------------------------------- strategies

class RandomStrategy:
    """Uniform choice among enabled threads; timers fire late by a random amount from `lates`;
    with probability p_tick time passes even though threads could run (load)."""

    def __init__(self, seed=0, lates=(0.0, 0.0, 0.0, 1 / 1024, 0.125, 0.5, 3.0), p_tick=0.0, tick_max=1.0,
                 p_stay=0.0):
        self.r = random.Random(seed)
        self.lates = lates
        self.p_tick = p_tick
        self.tick_max = tick_max
        self.p_stay = p_stay

    def choose(self, s, en, nd):
        if self.p_tick and self.r.random() < self.p_tick:
            return ('tick', s.now + self.r.choice((1 / 1024, 0.0625, self.tick_max)))
        if self.p_stay and s.cur in en and self.r.random() < self.p_stay:
            return s.cur
        return en[self.r.randrange(len(en))] if len(en) > 1 else en[0]

    def lateness(self, s, nd):
        return self.r.choice(self.lates)


class FifoStrategy:
    """Deterministic: keep running the current thread if possible, else lowest index; timers on time."""

    def choose(self, s, en, nd):
        return s.cur if s.cur in en else en[0]

    def lateness(self, s, nd):
        return 0.0


class ChoiceStrategy:
    """Replays a list of integer choices (index into the option list), then falls back to option 0.
    Records the branching factor met at every decision with more than one option: stateless DFS /
    replay of TLC-chosen schedules are built on top of this."""

    def __init__(self, choices=(), lates=(0.0,), main_first=True):
        self.choices = list(choices)
        self.k = 0
        self.branch = []
        self.lates = lates

    def _take(self, n):
        if n <= 1:
            return 0
        c = self.choices[self.k] if self.k < len(self.choices) else 0
        self.k += 1
        self.branch.append(n)
        return c % n

    def choose(self, s, en, nd):
        # option 0 = keep running the current thread when it is enabled
        if s.cur in en:
            en = [s.cur] + [t for t in en if t is not s.cur]
        return en[self._take(len(en))]

    def lateness(self, s, nd):
        return self.lates[self._take(len(self.lates))]


class DirectedStrategy:
    """Runs only the thread named `target` (S->C replay of a model behaviour); time passes only when told."""

    def __init__(self):
        self.target = None

    def choose(self, s, en, nd):
        if s.main in en:     # the driver itself is doing something (not settling): let it finish
            return s.main
        for t in en:
            if t.name == self.target:
                return t
        return None          # the model asked for a step the real thread cannot take

    def lateness(self, s, nd):
        return None          # nobody can run and the model did not tick


class PriorityStrategy:
    """PCT-style: random fixed priorities, d priority-change points at random step numbers."""

    def __init__(self, seed=0, depth=3, horizon=400, lates=(0.0, 0.0, 0.25, 2.0)):
        self.r = random.Random(seed)
        self.prio = {}
        self.change = sorted(self.r.randrange(1, horizon) for _ in range(depth))
        self.n = 0
        self.lates = lates

    def choose(self, s, en, nd):
        self.n += 1
        for t in en:
            if t.ix not in self.prio:
                self.prio[t.ix] = self.r.random() + 1.0
        best = max(en, key=lambda t: self.prio[t.ix])
        if self.change and self.n >= self.change[0]:
            self.change.pop(0)
            self.prio[best.ix] = self.r.random() * 0.5     # demote
            best = max(en, key=lambda t: self.prio[t.ix])
        return best

    def lateness(self, s, nd):
        return self.r.choice(self.lates)
