"""Build real sc3 SynthDefs from *programs* and project what happened (used by drivers c01/c02/c20).

A program (see spec/SynthGraph.tla, "Programs") is
    {name, ctl: [{n, r, d (, w: width of an array-valued control) (, lag: lag of a kr control)}], ins: [{op, cls, sel, rate, nout, a: [{k, i, ch}]}]}
    op  = gen (unit constructor) | un | bin | madd | sum
    operand k = "c" constant i | "r" channel ch of the result of instruction i (1-based) | "p" control i (1-based)
The graph function calls the real constructors / Python operators exactly as a user would write them.
This module records; it never judges.  The certificate `m` (source instruction -> emitted unit) is read
from object identity of the units the graph function created: it is an untrusted hint that TLC verifies."""
import hashlib
import io
import math
import operator
import struct

from harness import scgf

RATE_SEL = {2: 'ar', 1: 'kr', 0: 'ir', 3: 'dr'}
CTL_RATE = {0: 'ir', 1: 'kr', 2: 'ar', 3: 'tr'}


def _imports():
    import sc3
    from sc3.base import builtins as bi
    from sc3.base import main as _libsc3
    from sc3.synth import ugen as ugn
    from sc3.synth import synthdef as sdf
    from sc3.synth import synthdesc as sdc
    from sc3.synth import ugens
    return sc3, bi, _libsc3, ugn, sdf, sdc, ugens


# how a user writes each server operator in sc3 (SuperCollider selector -> Python expression)
def _un_table(bi):
    t = {
        'neg': lambda a: -a, 'not': lambda a: a.not_(), 'bitNot': lambda a: ~a, 'abs': lambda a: abs(a),
        'asFloat': lambda a: a.as_float(), 'asInteger': lambda a: a.as_int(),
        'rectWindow': lambda a: a.rectwindow(), 'hanWindow': lambda a: a.hanwindow(),
        'welWindow': lambda a: a.welwindow(), 'triWindow': lambda a: a.triwindow(),
    }
    for n in ('ceil', 'floor', 'frac', 'sign', 'squared', 'cubed', 'sqrt', 'exp', 'reciprocal', 'midicps',
              'cpsmidi', 'midiratio', 'ratiomidi', 'dbamp', 'ampdb', 'octcps', 'cpsoct', 'log', 'log2',
              'log10', 'sin', 'cos', 'tan', 'asin', 'acos', 'atan', 'sinh', 'cosh', 'tanh', 'rand',
              'rand2', 'linrand', 'bilinrand', 'sum3rand', 'distort', 'softclip', 'coin', 'ramp', 'scurve'):
        t[n] = (lambda name: lambda a: getattr(a, name)())(n)
    return t


def _bin_table(bi):
    t = {
        '+': operator.add, '-': operator.sub, '*': operator.mul, 'div': operator.floordiv,
        '/': operator.truediv, 'mod': operator.mod, '==': operator.eq, '!=': operator.ne,
        '<': operator.lt, '>': operator.gt, '<=': operator.le, '>=': operator.ge,
        'bitAnd': operator.and_, 'bitOr': operator.or_, 'bitXor': operator.xor, 'pow': operator.pow,
        'leftShift': operator.lshift, 'rightShift': operator.rshift,
        'roundUp': bi.roundup, 'hypotApx': bi.hypotx, 'unsignedRightShift': bi.urshift,
        'firstArg': bi.first_arg,
    }
    for n in ('min', 'max', 'lcm', 'gcd', 'round', 'trunc', 'atan2', 'hypot', 'ring1', 'ring2', 'ring3',
              'ring4', 'difsqr', 'sumsqr', 'sqrsum', 'sqrdif', 'absdif', 'thresh', 'amclip', 'scaleneg',
              'clip2', 'excess', 'fold2', 'wrap2', 'rrand', 'exprand'):
        t[n] = getattr(bi, n)
    return t


def _ctor(cls, rate):
    sel = RATE_SEL[rate]
    if hasattr(cls, sel):
        return getattr(cls, sel)
    return getattr(cls, 'new')


# constructor conventions (argument order a user passes -> the program's operand order = emitted input order)
EXTRA_CLASSES = {}


def _extra_classes(ugn):
    """a user defined unit class that is NOT registered in sc3.synth.ugens.installed_ugens: definitions using it
    build and write fine, but the library's own reader cannot re-create them (read-back fails)"""
    if not EXTRA_CLASSES:
        class VerifUnknownUGen(ugn.UGen):
            @classmethod
            def ar(cls, freq=440.0):
                return cls._multi_new('audio', freq)

            @classmethod
            def kr(cls, freq=440.0):
                return cls._multi_new('control', freq)
        EXTRA_CLASSES['VerifUnknownUGen'] = VerifUnknownUGen
    return EXTRA_CLASSES


def _call_gen(ugens, ins, args):
    cls = ugens.installed_ugens.get(ins['cls']) or EXTRA_CLASSES[ins['cls']]
    name = ins['cls']
    f = _ctor(cls, ins['rate'])
    if name in ('In', 'InFeedback', 'InTrig'):
        return f(args[0], ins['nout'])
    if name == 'LocalIn':
        return f(ins['nout'], list(args))
    if name in ('Out', 'ReplaceOut', 'OffsetOut'):
        return f(args[0], list(args[1:]))
    if name == 'XOut':
        return f(args[0], args[1], list(args[2:]))
    if name == 'LocalOut':
        return f(list(args))
    if name in ('DecodeB2', 'PanAz'):
        return f(ins['nout'], *args)                # first constructor argument = number of output channels
    if name == 'LocalBuf':
        return cls.new(args[1], args[0])          # new(frames, channels) -> inputs (channels, frames, max)
    if name == 'SetBuf':
        return cls.new(args[0], list(args[3:]), args[1])   # inputs (buf, offset, n, *values)
    return f(*args)


def _flat(x):
    if isinstance(x, list):
        out = []
        for y in x:
            out.extend(_flat(y))
        return out
    return [x]


def ctl_default(c):
    """default of a control parameter: a number, or for width w > 1 the tuple ((d + ch) % 7 for ch < w)"""
    w = c.get('w', 1)
    return c['d'] if w == 1 else tuple((c['d'] + ch) % 7 for ch in range(w))


def release_bytes(sd):
    mv = getattr(sd, '_bytes', None)
    if isinstance(mv, memoryview):
        try:
            mv.release()
        except Exception:
            pass
        sd._bytes = None


class Builder:
    def __init__(self):
        (self.sc3, self.bi, self._libsc3, self.ugn, self.sdf, self.sdc, self.ugens) = _imports()
        _extra_classes(self.ugn)
        self.un = _un_table(self.bi)
        self.bin = _bin_table(self.bi)

    # ------------------------------------------------------------------ graph function
    def graph_function(self, prog, log, hook=None):
        ugn, main = self.ugn, self._libsc3.main
        nctl = len(prog['ctl'])
        names = [c['n'] for c in prog['ctl']]

        def body(*ctl):
            try:
                return body_(*ctl)
            except Exception:
                if hook is not None:
                    hook(-1, None)          # the function fails (still inside the build)
                raise

        def body_(*ctl):
            sd = main._current_synthdef
            log['sdef'] = sd
            vals = []

            def operand(o):
                if o['k'] == 'c':
                    return o['i']
                if o['k'] == 'p':
                    v = ctl[o['i'] - 1]
                    return v[o['ch']] if isinstance(v, list) else v      # channel of an array-valued control
                return vals[o['i'] - 1][o['ch']]

            for idx, ins in enumerate(prog['ins']):
                if hook is not None:
                    hook(idx, ins)
                args = [operand(o) for o in ins['a']]
                op = ins['op']
                before = len(sd._children) if sd is not None else 0
                if op == 'gen':
                    res = _call_gen(self.ugens, ins, args)
                elif op == 'un':
                    res = self.un[ins['sel']](args[0])
                elif op == 'bin':
                    res = self.bin[ins['sel']](args[0], args[1])
                elif op == 'madd':
                    a = args[0]
                    res = a.madd(args[1], args[2]) if hasattr(a, 'madd') else ugn.MulAdd.new(*args)
                elif op == 'sum':
                    res = ugn.ChannelList(args).sum()
                elif op == 'mce':       # constructor called with (nested) lists: multichannel expansion
                    f = _ctor(self.ugens.installed_ugens[ins['cls']], ins['rate'])
                    if ins['sel'] == 'nested' and len(args) >= 3:
                        res = f([[args[0], args[1]]] + list(args[2:]))
                    else:
                        res = f(list(args))
                    res = _flat(res)
                elif op == 'lmadd':     # ChannelList(xs).madd(m, d)
                    res = ugn.ChannelList(args[:-2]).madd(args[-2], args[-1])
                elif op == 'zmadd':     # MulAdd.new(xs, ms, ds): lists zipped channel by channel
                    k = ins['nout']
                    res = ugn.MulAdd.new(list(args[:k]), list(args[k:2 * k]), list(args[2 * k:]))
                elif op == 'lbin':      # ChannelList(xs) sel y   |   ChannelList(xs) sel ChannelList(ys)
                    k = ins['nout']
                    other = args[k] if len(args) == k + 1 else ugn.ChannelList(args[k:])
                    res = self.bin[ins['sel']](ugn.ChannelList(args[:k]), other)
                elif op == 'lun':
                    res = -ugn.ChannelList(args)
                elif op == 'sinkn':     # output unit whose channel array is given as nested lists
                    cls = self.ugens.installed_ugens[ins['cls']]
                    f = _ctor(cls, ins['rate'])
                    nfix = {'LocalOut': 0, 'XOut': 2}.get(ins['cls'], 1)
                    c = list(args[nfix:])
                    if ins['sel'] == 'head':
                        arr = [[c[0], c[1]]] + c[2:]
                    elif ins['sel'] == 'tail':
                        arr = c[:-2] + [[c[-2], c[-1]]]
                    else:
                        arr = [[c[0], [c[1]]]] + c[2:]
                    res = f(*args[:nfix], arr)
                elif op == 'raise':
                    raise RuntimeError('graph function fails on purpose')
                elif op == 'bad':        # invalid input kinds for C02 (NaN / string / None ...)
                    res = {'nan': float('nan'), 'str': 'text', 'none': None, 'inf': float('inf'),
                           'empty': []}[ins['sel']]
                else:
                    raise AssertionError(op)
                if res is None:
                    chans = []
                elif isinstance(res, list):
                    chans = list(res)
                else:
                    chans = [res]
                vals.append(chans)
                if op == 'gen' and sd is not None:
                    unit = None
                    for u in sd._children[before:]:
                        if u is not None and type(u).__name__ == ins['cls']:
                            unit = u
                    log['units'][idx] = unit
            if sd is not None:
                log['created'] = list(sd._children)
                log['wf'] = list(sd._width_first_ugens)
            if hook is not None:
                hook(len(prog['ins']), None)

        # a function with named positional parameters, as SynthDef requires
        if nctl:
            src = 'def graph(%s):\n    return body(%s)\n' % (
                ', '.join('%s=%r' % (c['n'], ctl_default(c)) for c in prog['ctl']), ', '.join(names))
            scope = {'body': body}
            exec(src, scope)
            return scope['graph']
        return lambda: body()

    # ------------------------------------------------------------------ build + projection
    def build(self, prog, *, desc=False, hook=None, keep=False, variants=None, gc_safe=True, post=None):
        """returns the record for one build attempt.  gc_safe: drop the memoryview SynthDef.as_bytes()
        caches (on the pinned tree collecting such a SynthDef can kill the process - that defect is
        observed on purpose by the C20 driver only)"""
        log = dict(units={}, created=[], wf=[], sdef=None)
        rec = dict(raised=0, err='', msg='', stage='', nbytes=0, sha='', parsed=scgf.parse(b''),
                   m=[0] * len(prog['ins']), created=[], wf=[], late=0, proj_err='')
        rec['parsed']['defs'] = []
        func = self.graph_function(prog, log, hook)
        # a control-rate parameter with a lag is declared through rates=[number]
        rates = [c['lag'] if (c['r'] == 1 and c.get('lag')) else CTL_RATE[c['r']] for c in prog['ctl']]
        data = None
        sd = None
        try:
            rec['stage'] = 'build'
            kw = {}
            if variants:
                kw['variants'] = variants
            sd = self.sdf.SynthDef(prog['name'], func, rates, **kw)
            rec['stage'] = 'write'
            data = bytes(sd.as_bytes())
            rec['stage'] = ''
        except Exception as e:       # recorded; the spec decides whether raising was allowed
            rec['raised'] = 1
            rec['err'] = type(e).__name__
            rec['msg'] = str(e)[:200]
            if e.__cause__ is not None:
                rec['msg'] += ' <- %s: %s' % (type(e.__cause__).__name__, str(e.__cause__)[:120])
        # units this function created that ended up attached to some other definition (or none)
        rec['lost'] = sum(1 for u in log['units'].values()
                          if u is not None and log['sdef'] is not None and u._synthdef is not log['sdef'])
        try:
            if data is not None:
                rec['nbytes'] = len(data)
                rec['sha'] = hashlib.sha1(data).hexdigest()
                rec['parsed'] = scgf.parse(data)
                if keep:
                    rec['bytes_hex'] = data.hex()
                final = list(sd._children)
                pos = {id(u): i for i, u in enumerate(final)}
                for idx, u in log['units'].items():
                    if u is not None and id(u) in pos and final[pos[id(u)]] is u:
                        rec['m'][idx] = pos[id(u)] + 1
                # creation order of the emitted units (0 = created by the compiler, not by the function)
                cpos = {id(u): i for i, u in enumerate(log['created'])}
                rec['created'] = [cpos.get(id(u), -1) + 1 for u in final]
                wfset = {id(u) for u in log['wf']}
                rec['wf'] = [1 if id(u) in wfset else 0 for u in final]
                # width-first units the function created that are NOT in the emitted list (creation index)
                rec['wf_lost'] = [cpos.get(id(u), -1) + 1 for u in log['wf'] if id(u) not in pos]
                # (bytes the independent reader cannot parse are not fed to the library's reader: garbage counts
                #  could make it allocate without bound; the verdict is 'malformed' anyway)
                if desc and rec['parsed']['ok'] == 1:
                    rec['desc'] = [self.describe(lambda: self.sdc.SynthDesc.new_from(sd)),
                                   self.describe(lambda: self.sdc.SynthDesc._read_stream(io.BytesIO(data))[0]),
                                   self.describe(lambda: self.read_file(data))]
                if post is not None:
                    # something done with the finished definition (add / store / ...): recorded, not judged
                    rec['post'] = post(sd, data)
                if gc_safe:
                    release_bytes(sd)
        except Exception as e:      # the projection must never kill the driver: what could be read is the record
            rec['proj_err'] = type(e).__name__ + ': ' + str(e)[:80]
        return rec

    def read_file(self, data):
        """the same bytes through a real file, definitions kept (what SynthDescLib.read does)"""
        import pathlib
        import tempfile
        with tempfile.TemporaryDirectory(prefix='sg_', dir='.') as d:
            path = pathlib.Path(d) / 'def.scsyndef'
            path.write_bytes(data)
            return self.sdc.SynthDesc.read(path, keep_defs=True)[0]

    def describe(self, make):
        """projection of a SynthDesc: name, controls in slot order (name, index, rate, default),
        gate flag, input/output bus units"""
        out = dict(raised=0, err='', msg='', name='', ctl=[], names=[], gate=0, ins=[], outs=[], nconst=0)
        try:
            d = make()
            out['name'] = d.name if isinstance(d.name, str) else repr(d.name)
            out['names'] = [n if isinstance(n, str) else repr(n) for n in d.control_names]
            for c in d.controls:
                dv = c.default_value
                dvs = dv if isinstance(dv, list) else [dv]
                out['ctl'].append(dict(n=c.name if isinstance(c.name, str) else repr(c.name),
                                       i=c.index if isinstance(c.index, int) else -1,
                                       r=c.rate if isinstance(c.rate, str) else repr(c.rate),
                                       d=[scgf.f32_of_number(x) for x in dvs]))
            out['gate'] = 1 if d.has_gate else 0

            def io_(x):
                sc = x.starting_channel
                if isinstance(sc, (int, float)):
                    k, v, s = 'c', scgf.f32_of_number(sc), ''
                elif isinstance(sc, str):
                    k, v, s = 's', scgf.f32_of_number(0), sc
                else:
                    k, v, s = 'u', scgf.f32_of_number(0), type(sc).__name__
                return dict(r=x.rate, n=x.channels if isinstance(x.channels, int) else -1, k=k, v=v, s=s,
                            c=x.type.__name__)
            out['ins'] = [io_(x) for x in d.inputs]
            out['outs'] = [io_(x) for x in d.outputs]
            out['nconst'] = len(d.constants) if d.constants is not None else -1
        except Exception as e:
            out['raised'] = 1
            out['err'] = type(e).__name__            # short: TLC prints verdict lines on one line only if they are short
            out['msg'] = str(e)[:200]
        return out

    # ------------------------------------------------------------------ residue probes (C20)
    def probe_idle(self):
        """what an idle library looks like: context, lock, and a unit created outside any build"""
        main = self._libsc3.main
        ctx_none = 1 if main._current_synthdef is None else 0
        lock_free = 0
        if main._def_build_lock.acquire(blocking=False):
            lock_free = 1
            main._def_build_lock.release()
        owner = -1
        try:
            u = self.ugens.installed_ugens['SinOsc'].ar(440)
            owner = 0 if u._synthdef is None else 1
        except Exception:
            owner = 2
        wrap = 0
        try:
            self.sdf.SynthDef.wrap(lambda: None)
            wrap = 1                      # SynthDef.wrap worked although no build is running
        except Exception:
            pass
        return dict(ctx_none=ctx_none, lock_free=lock_free, orphan_owned=owner, wrap=wrap)
