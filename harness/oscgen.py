"""Seeded generators of abstract OSC values (the value language of spec/Osc.tla) and bookkeeping
classification of a value into input classes (used for signatures and non-triviality only)."""
import struct

STRS = ['', 'a', 'ab', 'abc', 'abcd', 'abcde', 'abcdefgh', '/x/y', 'ñ', 'ññ', 'ñññññ', '€uro', '😀', 'a😀b', 'dfg ', ',x']
# non-ASCII addresses of every (character count, UTF-8 length) residue: the byte length crosses a 4-byte padding
# boundary that the character count does not for '/ñu', '/ññ', '/año/€', '/😀'
ADDRS = ['/a', '/ab', '/abc', '/abcd', '/s_new', '/n_set', '/b_allocRead', '/ñ', '/done', '/a/b/c', '/1',
         '/ñu', '/ññ', '/señal', '/año/€', '/😀', '/b_ñ']
INTS = [0, 1, -1, 2, 255, 256, 65535, 65536, -65536, 1000, 2 ** 31 - 1, -2 ** 31, 12345678, -98765]
BIGINTS = [2 ** 31, -2 ** 31 - 1, 2 ** 32, 2 ** 40, -2 ** 35]
FLOATS = [0.0, 1.0, -1.0, 0.5, 0.1, 440.0, 1e-3, 3.141592653589793, 1e38, -2.5e-40, float('inf'), 1e-50]


def I(n):
    return {'t': 'i', 'hi': n >> 16, 'lo': n & 0xffff}


def F(x):
    return {'t': 'f', 'd': list(struct.pack('>d', x))}


def S(s):
    return {'t': 's', 'b': list(s.encode('utf-8'))}


def B(b, py=None):
    d = {'t': 'b', 'b': list(b)}
    if py:
        d['py'] = py
    return d


def K(t):
    return {'t': t}


def M(addr, args):
    return {'t': 'm', 'a': list(addr.encode('utf-8')), 'args': list(args)}


def Bn(time, els):
    return {'t': 'B', 'time': time, 'el': list(els)}


def Lat(x):
    from fractions import Fraction
    n = Fraction(x) * 2 ** 32
    assert n.denominator == 1
    return {'t': 'lat', 'b': list(int(n).to_bytes(8, 'big'))}


def rand_blob(rnd, py=True):
    n = rnd.choice([1, 2, 3, 4, 5, 6, 7, 8, 9, 12, 13, 31, 32, 33])
    return B(bytes(rnd.randrange(256) for _ in range(n)),
             rnd.choice([None, None, 'bytearray', 'memoryview']) if py else None)


def rand_arg(rnd, depth, bad):
    x = rnd.random()
    if bad and x < 0.12:
        return rnd.choice([I(rnd.choice(BIGINTS)), S('a\0b'), S('\0'), B(b''), K('fbig'),
                           {'t': 'x', 'py': rnd.choice(['dict', 'tuple', 'set', 'complex', 'intlist', 'listlist', 'object'])}])
    if x < 0.25:
        return I(rnd.choice(INTS) if rnd.random() < 0.6 else rnd.randint(-2 ** 31, 2 ** 31 - 1))
    if x < 0.4:
        return F(rnd.choice(FLOATS) if rnd.random() < 0.6 else rnd.uniform(-1e6, 1e6))
    if x < 0.6:
        return S(rnd.choice(STRS))
    if x < 0.75:
        return rand_blob(rnd)
    if x < 0.85:
        return K(rnd.choice(['T', 'F', 'N', 'E']))
    if depth > 0 and x < 0.93:
        return rand_msg(rnd, depth - 1, 4, bad)
    if depth > 0:
        return rand_bundle(rnd, depth - 1, bad, top=rnd.choice([None, 0.0, 0.5]))
    return I(7)


def rand_args(rnd, n, depth, bad):
    args = [rand_arg(rnd, depth, bad) for _ in range(n)]
    # array markers: balanced pairs around random spans (sometimes deliberately unbalanced)
    for _ in range(rnd.choice([0, 0, 0, 1, 1, 2])):
        i = rnd.randint(0, len(args))
        j = rnd.randint(i, len(args))
        args.insert(j, K(']'))
        args.insert(i, K('['))
    if bad and rnd.random() < 0.05:
        args.insert(rnd.randint(0, len(args)), K(rnd.choice('[]')))
    return args


def rand_msg(rnd, depth, maxargs, bad):
    addr = rnd.choice(ADDRS)
    if bad and rnd.random() < 0.03:
        addr = rnd.choice(['', '/a\0b'])
    return M(addr, rand_args(rnd, rnd.randint(0, maxargs), depth, bad))


def rand_time(rnd, at_least):
    """a time for a bundle enclosed in one with latency `at_least` (None: anything goes)"""
    x = rnd.random()
    base = at_least or 0.0
    if x < 0.7:
        return base + rnd.choice([0.0, 0.0, 0.125, 0.5, 1.0, 2.25])
    if x < 0.8:
        return None
    if x < 0.9:
        return -1.0
    return rnd.choice([0.0, 0.25, 0.5])


def time_val(x):
    if x is None:
        return K('none')
    if x < 0:
        return K('neg')
    return Lat(x)


def rand_bundle(rnd, depth, bad, top='rand'):
    t = rand_time(rnd, None) if top == 'rand' else top
    els = []
    for _ in range(rnd.choice([0, 1, 1, 2, 2, 3, 5])):
        if depth > 0 and rnd.random() < 0.3:
            sub = rand_time(rnd, t if (t is not None and t >= 0) else None)
            els.append(rand_bundle(rnd, depth - 1, bad, top=sub))
        else:
            els.append(rand_msg(rnd, depth - 1 if depth > 0 else 0, 5, bad))
    if bad and rnd.random() < 0.03:
        els.insert(rnd.randint(0, len(els)), {'t': 'x', 'py': rnd.choice(['dict', 'set', 'object'])})
    return Bn(time_val(t), els)


def enc_len(v):
    """encoded length of an abstract value - bookkeeping only, to aim generated sizes at the limit"""
    t = v['t']
    pad = lambda n: n + 4 - n % 4
    if t == 'fn':
        return enc_len(v['ret'])
    if t == 'm':
        return pad(len(v['a'])) + pad(len(v['args']) + 1) + sum(arg_len(a) for a in v['args'])
    if t == 'B':
        return 16 + sum(4 + enc_len(e) for e in v['el'])
    raise AssertionError(v)


def arg_len(a):
    t = a['t']
    if t == 'fn':
        return arg_len(a['ret'])
    if t == 's':
        n = a['z'] if 'z' in a else len(a['b'])
        return n + 4 - n % 4
    if t == 'b':
        n = a['z'] if 'z' in a else len(a['b'])
        return 4 + n + (-n % 4)
    if t in ('[', ']'):
        return 0
    if t in ('m', 'B'):
        return 4 + enc_len(a)
    return 4


def features(v, out=None):
    """input classes present in a value (bookkeeping)"""
    out = set() if out is None else out
    t = v['t']
    if t == 'm':
        a = v['a']
        if not a:
            out.add('empty-address')
        if 0 in a:
            out.add('nul-in-address')
        if any(c > 127 for c in a):
            out.add('nonascii-address')
        out.add('msg')
        for x in v['args']:
            features(x, out)
            if x['t'] in ('m', 'B'):
                out.add('nested-' + ('msg' if x['t'] == 'm' else 'bundle'))
    elif t == 'B':
        out.add('bundle')
        out.add('time-' + v['time']['t'])
        for x in v['el']:
            features(x, out)
            if x['t'] == 'B':
                out.add('bundle-in-bundle')
    elif t == 'i':
        n = v['hi'] * 65536 + v['lo']
        out.add('int' if -2 ** 31 <= n < 2 ** 31 else 'int-out-of-range')
    elif t == 's':
        if 'z' in v:
            out.add('str')
        else:
            b = v['b']
            out.add('nul-in-string' if 0 in b else 'str')
            if any(c > 127 for c in b):
                out.add('nonascii-string')
            if len(b) % 4 == 0:
                out.add('str-len-multiple-of-4')
    elif t == 'b':
        n = v['z'] if 'z' in v else len(v['b'])
        out.add('empty-blob' if n == 0 else 'blob')
        if n % 4:
            out.add('blob-len-not-multiple-of-4')
    elif t in ('f', 'fbig'):
        out.add('float' if t == 'f' else 'float-out-of-range')
    elif t == 'x':
        out.add('unsupported')
    elif t in ('[', ']'):
        out.add('array-marker')
    else:
        out.add({'T': 'true', 'F': 'false', 'N': 'none', 'E': 'empty-list'}[t])
    return out


BAD = ('empty-address', 'nul-in-address', 'int-out-of-range', 'nul-in-string', 'empty-blob',
       'float-out-of-range', 'unsupported')
