"""Helpers shared by props C01 / C02 / C20: programs from TLC, seeded random programs, build records.
Nothing here judges behaviour; TLC does (TraceSynthGraph / TraceScgf / TraceBuild)."""
import json
import os
import shutil
import threading

from harness import tlc
from harness.common import MachineryError, NCPU

DRIVER = 'drivers/c01_build.py'
# deep recursion in FoldLeft needs a bigger thread stack; few GC/JIT threads because 16 JVMs run side by side
JVM_OPTS = '-Xss32m -XX:ParallelGCThreads=2 -XX:CICompilerCount=2'
GEN_ACTIONS = ('AddUn', 'AddBin', 'AddMAdd', 'AddSum', 'AddGen', 'Finish')


# ------------------------------------------------------------------ program constructors
def C(v):
    return dict(k='c', i=v, ch=0)


def R(i, ch=0):
    return dict(k='r', i=i, ch=ch)


def Pm(i, ch=0):
    return dict(k='p', i=i, ch=ch)


def Gen(cls, rate, a, nout=1):
    return dict(op='gen', cls=cls, sel='', rate=rate, nout=nout, a=list(a))


def Un(sel, a):
    return dict(op='un', cls='', sel=sel, rate=0, nout=1, a=[a])


def Bin(sel, a, b):
    return dict(op='bin', cls='', sel=sel, rate=0, nout=1, a=[a, b])


def MAdd(a, m, d):
    return dict(op='madd', cls='', sel='', rate=0, nout=1, a=[a, m, d])


def Sum(xs):
    return dict(op='sum', cls='', sel='', rate=0, nout=1, a=list(xs))


def Prog(name, ctl, ins):
    return dict(name=name, ctl=list(ctl), ins=list(ins))


def Ctl(n, r, d, w=1, lag=0):
    """control parameter; w > 1: array-valued (tuple default ((d + ch) % 7 for ch < w), w slots under one name)"""
    return dict(n=n, r=r, d=d, w=w, lag=lag)


# ------------------------------------------------------------------ programs enumerated by TLC
_lock = threading.Lock()


def tlc_programs(ctx, slice_, *, cover=None, timeout=600, simulate=None, depth=None, seed=None, label=None,
                 workers=None, module='SynthGraphGen', tag=''):
    """All programs of a vocabulary slice (or group of slices) of SynthGraphGen.tla or, with simulate=, random
    walks of the same generator (RSpec).  The model run also checks the design invariants NaiveOK and
    DropDetected on every program.  Safe to call from several threads (own metadir per call; the
    bookkeeping of Ctx.model_check is repeated here because that method uses one shared work dir)."""
    label = label or 'slice ' + slice_
    wd = os.path.join(ctx.work, 'gen_%s_%s_%s%s' % (module, slice_, 'sim' if simulate else 'bfs', tag))
    kw = dict(env={'VERIF_SLICE': slice_, 'JAVA_TOOL_OPTIONS': JVM_OPTS}, timeout=timeout)
    cover = tuple(cover or ())
    if simulate:
        kw.update(simulate=simulate, depth=depth, seed=seed, workers=1)
        cfg = 'SynthGraphGen_sim.cfg'
    else:
        kw.update(workers=workers or NCPU, coverage=False)
        cfg = module + '.cfg'
    r = tlc.run(module, cfg, wd, **kw)
    shutil.rmtree(wd, ignore_errors=True)
    ctx.expect_ok(r, 'SynthGraphGen %s' % label)
    progs = []
    seen = set()
    taken = {}
    for line in r.output.splitlines():
        if line.startswith('<<"PROG"'):
            v = tlc.parse_value(line.strip())
            js = v[1]
            if js in seen:
                continue
            seen.add(js)
            rec = json.loads(js)
            progs.append(rec['p'])
            for a_ in rec.get('acts') or []:        # generator actions on the path to this program
                taken[a_] = taken.get(a_, 0) + 1
    run = dict(module=module, cfg=cfg, label=label, **r.summary())
    if cover:
        # vacuity guard without -coverage (its cost model takes ~40 s to build for this spec): the generator keeps
        # the set of action names it has taken in the state and prints it with every finished program
        run['actions_taken'] = {k: taken.get(k, 0) for k in cover}
    with _lock:
        ctx.cov['model_runs'].append(run)
        ctx.cov['states'] += r.distinct
        ctx.cov['transitions'] += r.generated
    for a_ in cover:
        if not taken.get(a_):
            raise MachineryError('vacuity: action %s never taken in %s/%s' % (a_, module, slice_))
    if not progs and module == 'SynthGraphGen':
        raise MachineryError('slice %s produced no programs' % slice_)
    return progs


# ------------------------------------------------------------------ run builds in sc3 processes
def run_builds(ctx, progs, *, desc=False, keep=False, mode=None, hashseed='0', nproc=None, base=0):
    n = len(progs)
    nproc = nproc or NCPU
    per = max(1, (n + nproc - 1) // nproc)
    inputs = [dict(ids=list(range(base + i, base + min(n, i + per))), progs=progs[i:i + per],
                   desc=1 if desc else 0, keep=1 if keep else 0) for i in range(0, n, per)]
    outs = ctx.run_drivers(DRIVER, inputs, mode=mode, hashseed=hashseed)
    recs = [r for o in outs for r in o['recs']]
    if len(recs) != n:
        raise MachineryError('driver returned %d records for %d programs' % (len(recs), n))
    return recs


def c01_trace(rec):
    """the part of a build record TraceSynthGraph.tla looks at"""
    return dict(id=rec['id'], prog=rec['prog'], raised=rec['raised'], err=rec['err'], parsed=rec['parsed'],
                m=rec['m'])


# ------------------------------------------------------------------ bookkeeping (not verdicts)
RING = ('+', '-', '*', '/')


def nontrivial(prog):
    """program contains an arithmetic instruction the optimiser can rewrite (sum of a sum, product
    feeding a sum, negation feeding a sum/difference, madd, neutral/absorbing constant) or a shared
    operand (same result used twice)"""
    ins = prog['ins']
    uses = {}
    for n, i in enumerate(ins, 1):
        seen = set()
        for o in i['a']:
            if o['k'] == 'r':
                key = (o['i'], o['ch'])
                uses[key] = uses.get(key, 0) + 1
                if key in seen:
                    return True
                seen.add(key)
    if any(v > 1 for v in uses.values()):
        return True
    for i in ins:
        if i['op'] in ('madd', 'sum'):
            return True
        if i['op'] == 'bin' and i['sel'] in RING:
            for o in i['a']:
                if o['k'] == 'c' and o['i'] in (0, 1, -1):
                    return True
                if o['k'] == 'r' and ins[o['i'] - 1]['op'] in ('bin', 'un', 'madd', 'sum'):
                    return True
    return False


# ------------------------------------------------------------------ seeded random programs for C02 / C20
CTL_POOL = [('freq', 1, 440), ('amp', 1, 1), ('gate', 1, 1), ('bus', 1, 0), ('t_trig', 3, 0), ('ain', 2, 0),
            ('irv', 0, 2), ('pan', 1, 0), ('out', 1, 0), ('amps', 1, 2, 3), ('freqs', 1, 1, 5), ('iarr', 0, 3, 2), ('lagk', 1, 2, 1, 2)]


def random_program(rnd, n, name, *, wf=True, mce=True, bad=None, variants=False):
    """a random program of about n instructions over the C02 vocabulary (multi-output units, width-first
    units, list arguments, several output units).  Only shapes are chosen here; what the program means and
    whether it must compile is decided by the spec."""
    ctl = [Ctl(*c) for c in rnd.sample(CTL_POOL, rnd.randint(0, 5))]
    ins = []
    sig = {0: [], 1: [], 2: []}          # rate -> operands known to run at that rate (unit outputs only)
    anysig = []
    bufs, chains = [], []

    def add(i):
        ins.append(i)
        return len(ins)

    def gen(cls, rate, a, nout=1):
        k = add(Gen(cls, rate, a, nout))
        for ch in range(nout):
            sig[rate].append(R(k, ch))
            anysig.append(R(k, ch))
        return k

    def const():
        return C(rnd.choice([0, 1, 2, 3, -1, 5, 440]))

    def anyop():
        x = rnd.random()
        if x < 0.25 or not anysig:
            return const()
        if x < 0.35 and ctl:
            i = rnd.randint(1, len(ctl))
            return Pm(i, rnd.randrange(ctl[i - 1]['w']))
        return rnd.choice(anysig)

    def audio():
        return rnd.choice(sig[2])

    gen('SinOsc', 2, [const(), C(0)])
    if bad:
        kbad = add(dict(op='bad', cls='', sel=bad, rate=0, nout=1, a=[]))
    while len(ins) < n:
        x = rnd.random()
        if x < 0.30:
            cls, rate = rnd.choice([('SinOsc', 2), ('SinOsc', 1), ('LFSaw', 2), ('Impulse', 1), ('Saw', 2),
                                    ('LFNoise0', 1), ('LFNoise0', 2), ('Dust', 2)])
            arity = {'SinOsc': 2, 'LFSaw': 2, 'Impulse': 2, 'Saw': 1, 'LFNoise0': 1, 'Dust': 1}[cls]
            gen(cls, rate, [anyop() for _ in range(arity)])
        elif x < 0.34:
            gen('WhiteNoise', rnd.choice([1, 2]), [])
        elif x < 0.38:
            gen('Line', rnd.choice([1, 2]), [const(), const(), const(), C(rnd.choice([0, 2]))])
        elif x < 0.41:
            gen('Rand', 0, [const(), const()])
        elif x < 0.46:
            gen('In', rnd.choice([1, 2]), [rnd.choice([const(), Pm(rnd.randint(1, len(ctl))) if ctl else const()])],
                rnd.randint(1, 4))
        elif x < 0.51:
            gen('Pan2', 2, [audio(), anyop(), anyop()], 2)
        elif x < 0.54:
            r = rnd.choice([1, 2])
            if sig[r]:
                gen('LPF', r, [rnd.choice(sig[r]), anyop()])
        elif x < 0.57:
            if sig[1]:
                gen('K2A', 2, [rnd.choice(sig[1])])
        elif x < 0.72:
            k = rnd.random()
            if k < 0.2:
                i = Un(rnd.choice(['neg', 'abs', 'midicps', 'squared', 'sqrt']), rnd.choice(anysig))
            elif k < 0.8:
                a, b = anyop(), anyop()
                if a['k'] == 'c' and b['k'] == 'c':
                    a = rnd.choice(anysig)
                i = Bin(rnd.choice(['+', '+', '-', '*', '*', '/', 'min', 'max', 'pow']), a, b)
            elif k < 0.9:
                i = MAdd(rnd.choice(anysig), anyop(), anyop())
            else:
                i = Sum([rnd.choice(anysig)] + [anyop() for _ in range(rnd.randint(1, 4))])
            add(i)
            anysig.append(R(len(ins), 0))
        elif x < 0.84 and wf:
            k = rnd.random()
            if k < 0.3 or not bufs:
                b = add(Gen('LocalBuf', 0, [C(1), C(rnd.choice([64, 128, 512]))], 1))
                bufs.append(R(b, 0))
            elif k < 0.4:
                vals = [const() for _ in range(rnd.randint(1, 4))]
                add(Gen('SetBuf', 0, [rnd.choice(bufs), C(0), C(len(vals))] + vals, 1))
            elif k < 0.45:
                add(Gen('ClearBuf', 0, [rnd.choice(bufs)], 1))
            elif k < 0.65:
                c = add(Gen('FFT', 1, [rnd.choice(bufs), audio(), C(1), C(0), C(1), C(0)], 1))
                chains.append(R(c, 0))
            elif k < 0.75 and chains:
                c = add(Gen('PV_MagSquared', 1, [rnd.choice(chains)], 1))
                chains.append(R(c, 0))
            elif k < 0.88 and chains:
                gen('IFFT', 2, [rnd.choice(chains), C(0), C(0)])
            elif k < 0.95:
                add(Gen('RandSeed', rnd.choice([0, 1]), [anyop() if rnd.random() < 0.5 else const(), C(1234)], 1))
            else:
                add(Gen('RandID', rnd.choice([0, 1]), [const()], 1))
        elif x < 0.90 and mce:
            k = rnd.randint(2, 4)
            ops = [anyop() for _ in range(k)]
            kk = add(dict(op='mce', cls='SinOsc', sel=rnd.choice(['flat', 'nested']), rate=2, nout=k, a=ops))
            for ch in range(k):
                sig[2].append(R(kk, ch))
                anysig.append(R(kk, ch))
        elif x < 0.96:
            r = rnd.choice([1, 2, 2])
            bus = rnd.choice([C(0), C(2), Pm(rnd.randint(1, len(ctl))) if ctl else C(1)])
            if r == 2:
                add(Gen(rnd.choice(['Out', 'ReplaceOut']), 2, [bus] + [audio() for _ in range(rnd.randint(1, 3))], 0))
            else:
                add(Gen('Out', 1, [bus] + [rnd.choice(anysig) for _ in range(rnd.randint(1, 3))], 0))
        else:
            if sig[1]:
                add(Gen('LocalOut', 1, [rnd.choice(sig[1])], 0))
    last = audio()
    if bad:
        # the invalid value reaches a unit or an operator that feeds the output
        if rnd.random() < 0.5:
            add(Gen('SinOsc', 2, [R(kbad, 0), C(0)]))
        else:
            add(Bin(rnd.choice(['+', '-', 'min']), last, R(kbad, 0)))
        last = R(len(ins), 0)
    add(Gen('Out', 2, [C(0), last], 0))
    p = Prog(name, ctl, ins)
    if variants and ctl and rnd.random() < 0.4:
        # build argument `variants`: mostly valid ones, sometimes one the writer has to refuse
        # (name + '.' + key longer than 32 characters, unknown control, too many values)
        vs = {}
        for k in range(rnd.randint(1, 3)):
            x = rnd.random()
            c = rnd.choice(ctl)
            if x < 0.7:
                vs['v%d' % k] = {c['n']: rnd.randint(0, 9)}
            elif x < 0.8:
                vs['v%d' % k + 'x' * 32] = {c['n']: 1}
            elif x < 0.9:
                vs['v%d' % k] = {'nosuchcontrol': 1}
            else:
                vs['v%d' % k] = {c['n']: [1, 2, 3]}
        p['variants'] = vs
    return p


def chain_program(rnd, n, name):
    """a long dependent chain with shared operands and constants: hundreds of units and constants"""
    ins = [Gen('SinOsc', 2, [C(440), C(0)]), Gen('LFNoise0', 1, [C(3)])]
    for k in range(n):
        prev = R(len(ins), 0)
        x = rnd.random()
        if x < 0.4:
            ins.append(Gen('SinOsc', 2, [prev, C(k % 97)]))
        elif x < 0.6:
            ins.append(Bin(rnd.choice(['+', '*', '-', 'min']), prev, C(1000 + k)))
        elif x < 0.75:
            ins.append(Bin('+', prev, R(rnd.randint(1, len(ins)), 0)))
        elif x < 0.85:
            ins.append(Gen('LPF', 2, [R(1, 0), prev]))
        else:
            ins.append(Un(rnd.choice(['abs', 'neg', 'squared']), prev))
    ins.append(Gen('Out', 2, [C(0), R(1, 0), R(len(ins), 0)], 0))
    return Prog(name, [], ins)


SINKS = ['Out', 'ReplaceOut', 'OffsetOut', 'LocalOut', 'XOut']


def array_sink_program(rnd, name):
    """an audio rate output unit of a random class fed by a channel ARRAY (2..7 channels, flat or nested) in which
    0..3 positions - first, middle, last, several - hold something that is not audio rate: a control or scalar rate
    unit, an operator result at control rate, a control parameter, a non-zero constant; literal zeros (which output
    units turn into silence) and other valid output units are sprinkled in.  Whether it must be refused is the
    spec's business (MustRaise)."""
    ctl = [Ctl('kc', 1, 3), Ctl('ac', 2, 1), Ctl('ic', 0, 2)]
    ins = [Gen('SinOsc', 2, [C(440), C(0)]), Gen('WhiteNoise', 2, []), Gen('LFNoise0', 1, [C(2)]),
           Gen('Rand', 0, [C(0), C(1)]), Gen('In', 2, [C(4)], 2),
           Bin('*', R(1), R(2)), Bin('+', R(3), Pm(1)), Un('abs', R(1)), Gen('Pan2', 2, [R(2), C(0), C(1)], 2)]
    good = [R(1), R(2), R(5, 0), R(5, 1), R(6), R(8), R(9, 0), R(9, 1), Pm(2)]
    bad = [R(3), R(4), R(7), Pm(1), Pm(3), C(2), C(-1), C(440)]
    k = rnd.randint(2, 7)
    chans = [rnd.choice(good) for _ in range(k)]
    nbad = rnd.choice([0, 1, 1, 1, 2, 3])
    pos = set()
    for _ in range(nbad):
        pos.add(rnd.choice([0, k - 1, k // 2, rnd.randrange(k)]))
    for p_ in pos:
        chans[p_] = rnd.choice(bad)
    for j in range(k):
        if j not in pos and rnd.random() < 0.1:
            chans[j] = C(0)
    cls = rnd.choice(SINKS)
    fixed = {'LocalOut': [], 'XOut': [rnd.choice([C(0), Pm(1)]), C(1)]}.get(cls, [rnd.choice([C(0), C(3), Pm(1)])])
    if rnd.random() < 0.3:
        ins.append(Gen('Out', 1, [C(1), R(3)], 0))          # a valid control rate output first
    shape = rnd.choice(['flat', 'flat', 'head', 'tail', 'deep']) if k >= 3 else 'flat'
    if shape == 'flat':
        ins.append(Gen(cls, 2, fixed + chans, 0))
    else:
        ins.append(dict(op='sinkn', cls=cls, sel=shape, rate=2, nout=0, a=fixed + chans))
    if rnd.random() < 0.3:
        ins.append(Gen('Out', 2, [C(0), R(1)], 0))
    return Prog(name, ctl, ins)


_DERIVED = None


def derived_classes():
    """classes whose input-rate requirement was read from the library source (harness/derive_classes.py)"""
    global _DERIVED
    if _DERIVED is None:
        with open(os.path.join(os.path.dirname(os.path.abspath(__file__)), 'derived_classes.json')) as f:
            _DERIVED = json.load(f)
    return _DERIVED


def rate_check_program(rnd, name, multi_only=False):
    """one unit of a class with a declared input-rate requirement (first n inputs audio / first input at the unit's
    rate), fed so that NO checked position, or exactly ONE of them in turn, or several, hold a signal of the wrong
    rate (control or scalar unit, control-rate operator result, control, constant); its output goes to an output
    unit so that it cannot be dropped.  The spec decides which of these must be refused."""
    tab = derived_classes()
    names = sorted(k for k, v in tab.items() if (v['kind'] == 'n' and v['n'] >= 2) or not multi_only)
    cls = rnd.choice(names)
    c = tab[cls]
    rate = rnd.choice(c['rates']) if c['kind'] == 'same' else 2
    ctl = [Ctl('kc', 1, 3), Ctl('ac', 2, 1)]
    ins = [Gen('SinOsc', 2, [C(440), C(0)]), Gen('WhiteNoise', 2, []), Gen('LFNoise0', 1, [C(2)]),
           Gen('Rand', 0, [C(0), C(1)]), Bin('*', R(1), R(2)), Bin('+', R(3), Pm(1))]
    by_rate = {2: [R(1), R(2), R(5), Pm(2)], 1: [R(3), R(6), Pm(1)], 0: [R(4)]}
    good = by_rate[rate]
    bad = [x for r_, xs in by_rate.items() if r_ != rate for x in xs] + [C(2), C(0)]
    n = c['n']
    mode = rnd.choice(['none', 'one', 'one', 'one', 'many'])
    badpos = set()
    if mode == 'one':
        badpos = {rnd.randrange(n)}
    elif mode == 'many':
        badpos = {j for j in range(n) if rnd.random() < 0.6}
    args = []
    for j in range(c['nin']):
        if j < n:
            args.append(rnd.choice(bad) if j in badpos else rnd.choice(good))
        else:
            args.append(rnd.choice([C(1), C(0), C(2), R(3), Pm(1)]))
    nout = rnd.randint(1, 4) if c['nout'] < 0 else c['nout']
    ins.append(Gen(cls, rate, args, nout))
    k = len(ins)
    if rate == 2:
        ins.append(Gen('Out', 2, [C(0)] + [R(k, ch) for ch in range(nout)], 0))
    else:
        ins.append(Gen('Out', 1, [C(0)] + [R(k, ch) for ch in range(nout)], 0))
    return Prog(name, ctl, ins)


def array_control_program(rnd, name, total):
    """few control NAMES, many control SLOTS: one to four parameters, at least one array-valued, `total` slots in all
    (the interesting totals sit around 255 / 256); the body reads the first, the last and some random channels"""
    nnames = min(rnd.randint(1, 4), max(1, total - 1))
    kinds = [rnd.choice([1, 1, 1, 0, 2, 3]) for _ in range(nnames)]
    widths = [1] * nnames
    big = rnd.randrange(nnames)
    rest = total - nnames
    for _ in range(rnd.randint(0, 2)):          # maybe split the slots over several arrays
        j = rnd.randrange(nnames)
        take = rnd.randint(0, rest)
        widths[j] += take
        rest -= take
    widths[big] += rest
    ctl = [Ctl('%s%d' % (rnd.choice(['amps', 'freqs', 'p']), j), kinds[j], rnd.randint(0, 6), widths[j])
           for j in range(nnames)]
    ins = [Gen('SinOsc', 2, [C(440), C(0)])]
    picks = [Pm(big + 1, 0), Pm(big + 1, widths[big] - 1)]
    for _ in range(rnd.randint(1, 6)):
        j = rnd.randrange(nnames)
        picks.append(Pm(j + 1, rnd.randrange(widths[j])))
    for o in picks:
        ins.append(Bin(rnd.choice(['*', '+']), R(len(ins)), o))
    ins.append(Gen('Out', 2, [C(0), R(len(ins))], 0))
    return Prog(name, ctl, ins)


def lag_control_program(rnd, name, total):
    """control-rate parameters totalling `total` channels (around the 16-channel clumps of LagControl: 15, 16, 17, 32, 33
    ...), at least one of them with a lag, optionally next to scalar / audio / trigger parameters; the body reads the
    first and last channel of every control-rate parameter and some random ones"""
    nk = min(rnd.randint(1, 4), total)
    widths = [1] * nk
    for _ in range(total - nk):
        widths[rnd.randrange(nk)] += 1
    lags = [rnd.choice([0, 0, 1, 2, 5]) for _ in range(nk)]
    if not any(lags):
        lags[rnd.randrange(nk)] = rnd.choice([1, 3])
    ctl = [Ctl('lk%d' % j, 1, rnd.randint(0, 6), widths[j], lags[j]) for j in range(nk)]
    for extra in rnd.sample([('ir0', 0, 2), ('ar0', 2, 0), ('tr0', 3, 0)], rnd.randint(0, 2)):
        ctl.insert(rnd.randint(0, len(ctl)), Ctl(*extra))
    ins = [Gen('SinOsc', 2, [C(440), C(0)])]
    picks = []
    for j, c in enumerate(ctl):
        if c['r'] == 1:
            picks += [Pm(j + 1, 0), Pm(j + 1, c['w'] - 1), Pm(j + 1, rnd.randrange(c['w']))]
        else:
            picks.append(Pm(j + 1, 0))
    for o in picks:
        ins.append(Bin(rnd.choice(['*', '+']), R(len(ins)), o))
    ins.append(Gen('Out', 2, [C(0), R(len(ins))], 0))
    return Prog(name, ctl, ins)
