"""Shared check context: tiers, seeds, work dirs, drivers, trace validation, evidence, verdicts."""
import hashlib
import json
import os
import shutil
import subprocess
import sys
import time
from concurrent.futures import ThreadPoolExecutor

from . import tlc

ROOT = os.path.dirname(os.path.dirname(os.path.abspath(__file__)))
REPO = os.environ.get('SC3_REPO', '/repo')
PY = os.environ.get('SC3_PYTHON', '/venv/bin/python')
NCPU = os.cpu_count() or 4


class MachineryError(Exception):
    pass


def canon(o):
    return json.dumps(o, sort_keys=True, separators=(',', ':'), default=str)


def digest(o):
    return hashlib.sha1(canon(o).encode()).hexdigest()[:16]


class Ctx:
    def __init__(self, pid, tier='quick', seed=0, level='model_checking'):
        self.pid = pid
        self.tier = tier
        self.seed = seed
        self.level = level
        self.t0 = time.time()
        self.work = os.path.join(ROOT, '.work', '%s.%d' % (pid, os.getpid()))
        shutil.rmtree(self.work, ignore_errors=True)
        os.makedirs(self.work, exist_ok=True)
        self.replay_dir = os.path.join(ROOT, 'replays', pid)
        self.violations = []        # unlisted violations
        self.known_hits = {}        # signature -> what
        self.drift = []
        self.cov = dict(states=0, transitions=0, traces_validated_against_impl=0, samples=[],
                        evaluations=0, distinct_nontrivial=0, rule='', exhaustive=False,
                        model_runs=[], known_findings=[], drift=[])
        self.assumptions = []
        self._nontrivial = set()
        self._kf = _load_known()
        self.quick = tier == 'quick'

    # ---------------------------------------------------------------- TLC
    def model_check(self, module, cfg, *, require_cover=(), label=None, **kw):
        """Exhaustive (or simulated) TLC run of a design-level model.  Any violation here is on the
        model, not on the code: it is a machinery error unless the caller handles it."""
        kw.setdefault('workers', NCPU)
        kw.setdefault('coverage', bool(require_cover))
        r = tlc.run(module, cfg, self.work, **kw)
        run = dict(module=module, cfg=cfg, **r.summary())
        if label:
            run['label'] = label
        if r.coverage:
            run['actions_taken'] = {k: v[0] for k, v in sorted(r.coverage.items()) if k in require_cover} \
                if require_cover else {}
        self.cov['model_runs'].append(run)
        self.cov['states'] += r.distinct
        self.cov['transitions'] += r.generated
        for a in require_cover:
            if r.coverage.get(a, (0, 0))[1] == 0:
                raise MachineryError('vacuity: action %s never taken in %s/%s' % (a, module, cfg))
        return r

    def expect_ok(self, r, what):
        if not r.ok:
            raise MachineryError('%s: model run failed: violated=%s deadlock=%s\n%s'
                                 % (what, r.violated, r.deadlock, r.output[-3000:]))

    # ---------------------------------------------------------------- trace validation
    def validate(self, module, cfg, traces, *, nproc=None, timeout=900, env=None, per_chunk=None):
        """Batch trace validation.  traces: list of dicts each with unique integer 'id'.
        The trace spec prints <<"ACC", id>> or <<"REJ", id, index, why>> for every trace.
        Returns {id: None (accepted) | (index, why)}."""
        if not traces:
            return {}
        nproc = nproc or NCPU
        n = len(traces)
        per = per_chunk or max(1, (n + nproc - 1) // nproc)
        chunks = [traces[i:i + per] for i in range(0, n, per)]
        verdicts = {}
        stats = []

        def one(ix_chunk):
            ix, chunk = ix_chunk
            path = os.path.join(self.work, 'traces_%s_%d.json' % (module, ix))
            with open(path, 'w') as f:
                json.dump(chunk, f)
            e = {'VERIF_TRACES': path}
            if env:
                e.update(env)
            wd = os.path.join(self.work, 'v%d' % ix)
            r = tlc.run(module, cfg, wd, workers=1, timeout=timeout, env=e)
            shutil.rmtree(wd, ignore_errors=True)
            out = {}
            acc = set()
            for line in r.output.splitlines():
                line = line.strip()
                if line.startswith('<<"ACC"'):
                    v = tlc.parse_value(line)
                    out[v[1]] = None
                    acc.add(v[1])
                elif line.startswith('<<"REJ"'):
                    # a trace spec may branch (unlogged choices): accepted if any branch is; otherwise
                    # report the rejection that got furthest
                    v = tlc.parse_value(line)
                    if v[1] not in out or (out[v[1]] is not None and out[v[1]][0] < v[2]):
                        out[v[1]] = (v[2], v[3] if len(v) > 3 else '?')
            for k in acc:
                out[k] = None
            if not r.ok:
                k = r.output.find('Error:')
                raise MachineryError('trace validation run failed (%s): %s\n%s\n...\n%s'
                                     % (module, r.violated, r.output[max(0, k):k + 1500], r.output[-800:]))
            missing = [t['id'] for t in chunk if t['id'] not in out]
            if missing:
                raise MachineryError('trace validation gave no verdict for ids %s (%s)\n%s'
                                     % (missing[:5], module, r.output[-2000:]))
            os.unlink(path)
            return out, r

        with ThreadPoolExecutor(max_workers=nproc) as ex:
            for out, r in ex.map(one, list(enumerate(chunks))):
                verdicts.update(out)
                stats.append(r)
        self.cov['traces_validated_against_impl'] += len(traces)
        self.cov['states'] += sum(r.distinct for r in stats)
        self.cov['transitions'] += sum(r.generated for r in stats)
        return verdicts

    # ---------------------------------------------------------------- drivers
    def run_driver(self, script, inp, *, mode=None, timeout=900, env=None, hashseed='0', tag=''):
        """Run harness driver `script` (path relative to /verif) in a fresh sc3 process.
        inp is JSON-serialisable; the driver writes JSON to the output path it is given."""
        k = digest([script, tag, time.time(), os.getpid(), id(inp)])
        ip = os.path.join(self.work, 'in_%s.json' % k)
        op = os.path.join(self.work, 'out_%s.json' % k)
        with open(ip, 'w') as f:
            json.dump(inp, f)
        e = dict(os.environ)
        e['PYTHONPATH'] = REPO + os.pathsep + ROOT
        e['PYTHONHASHSEED'] = str(hashseed)
        e['SC3_REPO'] = REPO
        if mode:
            e['VERIF_MODE'] = mode
        if env:
            e.update(env)
        p = subprocess.run([PY, os.path.join(ROOT, script), ip, op], env=e, cwd=self.work,
                           stdout=subprocess.PIPE, stderr=subprocess.PIPE, timeout=timeout, text=True,
                           errors='replace')
        if p.returncode != 0 or not os.path.exists(op):
            raise MachineryError('driver %s failed rc=%s\nstdout:%s\nstderr:%s'
                                 % (script, p.returncode, p.stdout[-2000:], p.stderr[-4000:]))
        with open(op) as f:
            out = json.load(f)
        os.unlink(ip)
        os.unlink(op)
        return out

    def run_drivers(self, script, inputs, *, nproc=None, **kw):
        nproc = nproc or NCPU
        with ThreadPoolExecutor(max_workers=nproc) as ex:
            return list(ex.map(lambda i: self.run_driver(script, i, **kw), inputs))

    # ---------------------------------------------------------------- verdicts
    def violation(self, signature, what, replay):
        """Record an L1 violation seen on the real code.  Listed+open => known finding."""
        for k in self._kf.get('findings', []):
            if k.get('property') == self.pid and k.get('status', 'open') == 'open' \
                    and k.get('signature') == signature:
                if signature not in self.known_hits:
                    self.known_hits[signature] = k.get('what', what)
                    self.cov['known_findings'].append(dict(signature=signature, what=k.get('what', what)))
                return False
        for sig, _w, p in self.violations:
            if sig == signature:
                self.violations.append((signature, what, p))
                return True
        os.makedirs(self.replay_dir, exist_ok=True)
        path = os.path.join(self.replay_dir, '%s_%s.json' % (self.tier, digest([signature, replay])))
        with open(path, 'w') as f:
            json.dump(dict(property=self.pid, signature=signature, what=what, tier=self.tier,
                           seed=self.seed, replay=replay), f, indent=1, default=str)
        self.violations.append((signature, what, path))
        return True

    def note_drift(self, what):
        if len(self.cov['drift']) < 20:
            self.cov['drift'].append(what)

    def nontrivial(self, case):
        self._nontrivial.add(digest(case))

    def sample(self, s, limit=4):
        if len(self.cov['samples']) < limit:
            self.cov['samples'].append(s)

    def finish(self):
        cov = self.cov
        cov['distinct_nontrivial'] = len(self._nontrivial)
        if not cov['evaluations']:
            cov['evaluations'] = cov['traces_validated_against_impl']
        if not cov['samples']:
            cov['samples'] = ['(no sample recorded)']
        ev = dict(property_id=self.pid, tier=self.tier, seed=self.seed, level=self.level,
                  coverage=cov, assumptions=self.assumptions, wall_s=round(time.time() - self.t0, 2),
                  violations=len(self.violations))
        evdir = os.path.join(ROOT, '.work', 'evidence_scratch') if os.environ.get('VERIF_SCRATCH') \
            else os.path.join(ROOT, 'evidence')
        os.makedirs(evdir, exist_ok=True)
        with open(os.path.join(evdir, self.pid + '.json'), 'w') as f:
            json.dump(ev, f, indent=1, default=str)
        for sig, what in self.known_hits.items():
            print('KNOWN-FINDING: property=%s %s' % (self.pid, what))
        seen = set()
        for sig, what, path in self.violations:
            if sig in seen:
                continue
            seen.add(sig)
            print('VIOLATION property=%s replay=%s' % (self.pid, path))
            print('  what: %s' % what)
        shutil.rmtree(self.work, ignore_errors=True)
        print('%s %s: states=%d transitions=%d traces=%d nontrivial=%d violations=%d wall=%.1fs'
              % (self.pid, self.tier, cov['states'], cov['transitions'],
                 cov['traces_validated_against_impl'], cov['distinct_nontrivial'],
                 len(self.violations), time.time() - self.t0))
        return 1 if self.violations else 0


def _load_known():
    out = {'findings': [], 'fixed': []}
    paths = [os.path.join(ROOT, 'known_findings.json')]
    d = os.path.join(ROOT, 'known_findings.d')
    if os.path.isdir(d):
        paths += [os.path.join(d, f) for f in sorted(os.listdir(d)) if f.endswith('.json')]
    for p in paths:
        try:
            with open(p) as f:
                k = json.load(f)
            out['findings'] += k.get('findings', [])
            out['fixed'] += k.get('fixed', [])
        except FileNotFoundError:
            pass
    return out
