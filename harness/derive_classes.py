"""Derive, mechanically from the sc3 source, the unit classes whose input-rate requirement is declared through the
generic helpers:   _check_inputs == `return self._check_n_inputs(n)`   (audio unit: first n inputs audio rate)
                   _check_inputs == `return self._check_sr_as_first_input()` (first input runs at the unit's rate)
and write them as rows of the class table of spec/SynthGraph.tla (between the DERIVED markers) and as
harness/derived_classes.json (used by the program generators).  Run by hand when the vocabulary is to be refreshed:
    PYTHONPATH=/repo:/verif /venv/bin/python harness/derive_classes.py
The table is COMMITTED (not re-derived at check time): a change of a class's declaration in the library must show up
as a verdict, not silently move the oracle.  Only what the declaration says is taken from the source (helper, n,
arity, outputs); that the helper must refuse a non-audio input at every one of the n positions is the spec's."""
import inspect
import json
import logging
import os
import re
import sys

SKIP = {'Poll', 'SendReply', 'SendTrig', 'Changed'}      # labels / pseudo units: not plain numeric constructors
CHANNELS_FIRST = {'DecodeB2', 'PanAz'}                   # first constructor argument = number of output channels


def derive():
    logging.disable(logging.WARNING)
    import sc3
    sc3.init('nrt')
    from sc3.synth.ugens import installed_ugens
    from sc3.synth import ugen as ugn
    from sc3.synth.synthdef import SynthDef
    out = {}
    for name, cls in sorted(installed_ugens.items()):
        if name in SKIP or not hasattr(cls, 'ar'):
            continue
        try:
            src = inspect.getsource(cls._check_inputs)
        except Exception:
            continue
        body = [l.strip() for l in src.split('\n')[1:] if l.strip() and not l.strip().startswith('#')]
        if len(body) != 1:
            continue
        m = re.fullmatch(r'return self\._check_n_inputs\((\d+)\)', body[0])
        if m:
            kind, n = 'n', int(m.group(1))
        elif body[0] == 'return self._check_sr_as_first_input()':
            kind, n = 'same', 1
        else:
            continue
        # constructors must be plain `return cls._multi_new(rate, *params)` calls (no shortcut that returns the input)
        plain = True
        for sel in ('ar', 'kr'):
            if hasattr(cls, sel):
                b2 = ' '.join(l.strip() for l in inspect.getsource(getattr(cls, sel)).split('\n')[2:] if l.strip())
                if not re.fullmatch(r"return cls\._multi_new\(\s*'\w+',[^()]*\)(\s*\* level)?(\s*#.*)?", b2):
                    plain = False
        if not plain:
            continue
        params = list(inspect.signature(cls.ar).parameters.values())
        if any(p.kind != p.POSITIONAL_OR_KEYWORD for p in params):
            continue
        nch = 3 if name in CHANNELS_FIRST else None
        info = {}

        def f():
            from sc3.synth.ugens import SinOsc, Out
            sig = params[1:] if nch else params
            args = [SinOsc.ar(440 + i) if i < n else 1 for i in range(len(sig))]
            if name == 'LinXFade2':
                args = args[:3]
            r = cls.ar(nch, *args) if nch else cls.ar(*args)
            ch = r if isinstance(r, list) else [r]
            u = ch[0].source_ugen if isinstance(ch[0], ugn.OutputProxy) else ch[0]
            info.update(nout=len(ch), nin=len(u.inputs), cls=type(u).__name__,
                        order=len(u.inputs) == len(args) and all(u.inputs[i] is args[i] or u.inputs[i] == args[i]
                                                                  for i in range(len(args))))
            Out.ar(0, ch[0])
        try:
            SynthDef('d', f)
        except Exception as e:
            continue
        if not info.get('order') or info['cls'] != name:
            continue
        out[name] = dict(kind=kind, n=n, nin=info['nin'], nout=-1 if nch else info['nout'],
                         rates=[1, 2] if hasattr(cls, 'kr') else [2], pure=bool(issubclass(cls, ugn.PureUGenMixin)))
    return out


def tla_rows(tab):
    rows = []
    for name, c in sorted(tab.items()):
        aud = '{%s}' % ', '.join(str(i) for i in range(1, c['n'] + 1)) if c['kind'] == 'n' else '{}'
        same = '{1}' if c['kind'] == 'same' else '{}'
        nout = '0 - 1' if c['nout'] < 0 else str(c['nout'])
        rows.append('    "%s" :> K(FALSE, {%s}, %d, %d, %s, %s, 0, %s) @@' % (
            name, ', '.join(map(str, c['rates'])), c['nin'], c['nin'], nout, aud, same))
    return rows


def main():
    root = os.path.dirname(os.path.dirname(os.path.abspath(__file__)))
    tab = derive()
    json.dump(tab, open(os.path.join(root, 'harness', 'derived_classes.json'), 'w'), indent=1, sort_keys=True)
    p = os.path.join(root, 'spec', 'SynthGraph.tla')
    s = open(p).read()
    a = s.index('    \\* BEGIN DERIVED')
    b = s.index('    \\* END DERIVED')
    hand = set(re.findall(r'^    "(\w+)" :> ', s[:a] + s[b:], re.M))
    rows = [r for r in tla_rows(tab) if re.match(r'    "(\w+)"', r).group(1) not in hand]
    s = s[:a] + '    \\* BEGIN DERIVED (harness/derive_classes.py: helper + n + arity + outputs read from the sc3 source)\n' \
        + '\n'.join(rows) + '\n' + s[b:]
    open(p, 'w').write(s)
    print(len(tab), 'classes derived,', len(rows), 'rows written;', sorted(k for k, v in tab.items() if v['kind'] == 'n'))


if __name__ == '__main__':
    main()
