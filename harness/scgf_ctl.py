"""Minimal independent SynthDef-file (SCgf version 2) reader used by C04/C03 as a *projection*:
bytes -> {name, consts, ctl, names, units, variants}.  Written from the file-format description
(SuperCollider "Synth Definition File Format", version 2), not from sc3's writer.  Stdlib only.

Numbers are projected to integers scaled by SCALE (= 8) because TLC has no floats; a value that is
not a multiple of 1/8 is a projection failure (ScgfError), never a verdict."""
import struct

SCALE = 8


class ScgfError(Exception):
    pass


class _R:
    def __init__(self, b):
        self.b = bytes(b)
        self.i = 0

    def take(self, n):
        if self.i + n > len(self.b):
            raise ScgfError('truncated at byte %d (+%d)' % (self.i, n))
        s = self.b[self.i:self.i + n]
        self.i += n
        return s

    def i8(self):
        return struct.unpack('>b', self.take(1))[0]

    def i16(self):
        return struct.unpack('>h', self.take(2))[0]

    def i32(self):
        return struct.unpack('>i', self.take(4))[0]

    def f32s(self, n):
        return list(struct.unpack('>%df' % n, self.take(4 * n)))

    def pstr(self):
        n = self.take(1)[0]
        return self.take(n).decode('latin-1')


def scaled(x):
    v = x * SCALE
    if v != int(v) or abs(v) >= 2 ** 31:
        raise ScgfError('value %r is not on the 1/%d lattice' % (x, SCALE))
    return int(v)


def parse(b):
    """Return a list of definitions (plain dicts, floats as floats)."""
    r = _R(b)
    if r.take(4) != b'SCgf':
        raise ScgfError('bad magic')
    ver = r.i32()
    if ver != 2:
        raise ScgfError('version %d' % ver)
    defs = []
    for _ in range(r.i16()):
        d = {'name': r.pstr()}
        d['consts'] = r.f32s(r.i32())
        d['ctl'] = r.f32s(r.i32())
        d['names'] = [[r.pstr(), r.i32()] for _ in range(r.i32())]
        units = []
        for _ in range(r.i32()):
            u = {'c': r.pstr(), 'r': r.i8()}
            nin, nout = r.i32(), r.i32()
            u['s'] = r.i16()
            u['ins'] = [[r.i32(), r.i32()] for _ in range(nin)]
            u['outs'] = [r.i8() for _ in range(nout)]
            units.append(u)
        d['units'] = units
        d['variants'] = [[r.pstr(), r.f32s(len(d['ctl']))] for _ in range(r.i16())]
        defs.append(d)
    if r.i != len(r.b):
        raise ScgfError('%d trailing bytes' % (len(r.b) - r.i))
    return defs


def project(d):
    """One parsed definition -> ints and strings only (values x SCALE).  Unit inputs become
    [u, o, c]: u = -1 for a constant whose scaled value is c (o = constant index), else c = 0."""
    consts = [scaled(x) for x in d['consts']]
    units = []
    for u in d['units']:
        ins = []
        for a, o in u['ins']:
            if a == -1:
                if not 0 <= o < len(consts):
                    raise ScgfError('constant index %d out of range' % o)
                ins.append([-1, o, consts[o]])
            else:
                ins.append([a, o, 0])
        units.append({'c': u['c'], 'r': u['r'], 's': u['s'], 'no': len(u['outs']), 'ins': ins,
                      'outs': list(u['outs'])})
    return {'name': d['name'], 'consts': consts, 'ctl': [scaled(x) for x in d['ctl']],
            'names': [[n, i] for n, i in d['names']], 'units': units,
            'variants': [{'n': n, 'v': [scaled(x) for x in v]} for n, v in d['variants']]}
