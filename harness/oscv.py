"""Batch trace validation that also collects DRIFT lines (L2-only mismatches).  Same protocol and the
same accounting as Ctx.validate (harness/common.py), which returns verdicts only; used by C06/C18."""
import json
import os
import re
import shutil
from concurrent.futures import ThreadPoolExecutor

from . import tlc
from .common import MachineryError, NCPU

_MARK = re.compile(r'^<<\s*"(?:ACC|REJ|DRIFT)"', re.M)


def validate(ctx, module, cfg, traces, *, timeout=900, tag='', all_rej=None):
    """-> ({id: None | (index, why[, detail])}, {id: drift text}).  A trace spec may reject several events
    of one trace (it then prints no ACC): the first rejection is the verdict, all of them are appended to
    all_rej[id] when a dict is passed."""
    if not traces:
        return {}, {}
    n = len(traces)
    nchunks = max(1, min(NCPU, n // 120))     # a JVM start costs about as much as 100 small traces
    per = max(1, (n + nchunks - 1) // nchunks)
    chunks = [traces[i:i + per] for i in range(0, n, per)]

    def one(ix_chunk):
        ix, chunk = ix_chunk
        path = os.path.join(ctx.work, 'tr_%s%s_%d.json' % (module, tag, ix))
        with open(path, 'w') as f:
            json.dump(chunk, f)
        wd = os.path.join(ctx.work, 'w%s_%d' % (tag, ix))
        r = tlc.run(module, cfg, wd, workers=1, timeout=timeout, env={'VERIF_TRACES': path, 'JAVA_TOOL_OPTIONS': '-Xss64m -XX:ParallelGCThreads=2'})
        shutil.rmtree(wd, ignore_errors=True)
        out, drift = {}, {}
        # TLC wraps long tuples over several lines: parse values at every <<"ACC"|"REJ"|"DRIFT" marker
        for m in _MARK.finditer(r.output):
            try:
                v, _ = tlc._pv(r.output, m.start())
            except Exception:
                continue
            if v[0] == 'ACC':
                out[v[1]] = None
            elif v[0] == 'REJ':
                rej = tuple(v[2:]) if len(v) > 3 else (v[2], '?')
                if out.get(v[1]) is None or rej[0] < out[v[1]][0]:
                    out[v[1]] = rej
                if all_rej is not None:
                    all_rej.setdefault(v[1], []).append(rej)
            else:
                drift[v[1]] = v[2]
        if not r.ok:
            raise MachineryError('trace validation run failed (%s): %s\n%s' % (module, r.violated, r.output[-3000:]))
        missing = [t['id'] for t in chunk if t['id'] not in out]
        if missing:
            raise MachineryError('trace validation gave no verdict for ids %s (%s)\n%s'
                                 % (missing[:5], module, r.output[-2000:]))
        os.unlink(path)
        return out, drift, r

    verdicts, drifts, stats = {}, {}, []
    with ThreadPoolExecutor(max_workers=NCPU) as ex:
        for out, drift, r in ex.map(one, list(enumerate(chunks))):
            verdicts.update(out)
            drifts.update(drift)
            stats.append(r)
    ctx.cov['traces_validated_against_impl'] += n
    ctx.cov['states'] += sum(r.distinct for r in stats)
    ctx.cov['transitions'] += sum(r.generated for r in stats)
    return verdicts, drifts
