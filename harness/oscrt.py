"""Helpers shared by the C06 / C18 drivers (run inside the sc3 process).  No verdict logic.

init_rt()         start sc3 in RT mode on a port of this process' own (16+ drivers run in parallel)
deliver(...)      THE place where "hand one datagram to the receiver and wait until it has been
                  processed" is implemented (swap in a deterministic scheduler here later)
project / realise the projection between Python argument lists and the abstract values of Osc.tla
"""
import os
import signal
import struct
import threading
import time as _time
from fractions import Fraction


def init_rt():
    import sc3
    sc3.LIB_PORT = 20000 + (os.getpid() * 7) % 30000
    sc3.LIB_PORT_RANGE = 500
    sc3.init('rt', verbosity='CRITICAL')
    from sc3.base.main import main
    repo = os.path.realpath(os.environ.get('SC3_REPO', '/repo'))
    assert os.path.realpath(sc3.__file__).startswith(repo), sc3.__file__
    return main


# --------------------------------------------------------------------------- delivery
class Hang(BaseException):
    pass


def quiesce(timeout=5.0):
    """Wait until everything scheduled on SystemClock at or before now has run: schedule a marker
    behind it (same time => FIFO) and wait for the marker."""
    from sc3.base.clock import SystemClock
    ev = threading.Event()
    SystemClock.sched(0, lambda: ev.set())
    return ev.wait(timeout)


def deliver(main, dgram, addr, *, iface=None, watchdog=3.0, settle=20.0, udp=None):
    """THE one place where a datagram is handed to the receiver and waited for.

    direct (udp=None): call iface._handle_request(bytes, addr) on this thread, then wait until the
        dispatch it scheduled on SystemClock has run (a marker task scheduled behind it).
    loopback (udp=UdpPath): send the datagram from a real socket to the interface's port; the library's
        own receive thread calls _handle_request; wait for a sentinel datagram sent behind it.
    Returns 'ok', 'raise:<Exc>' (an exception escaped into the receiver), 'hang' (the receive path was
    still running after the watchdog - twice, the second time with a doubled watchdog, so that a
    descheduled process is not mistaken for a hang) or 'stuck' (the clock never ran the dispatch)."""
    if udp is not None:
        return udp.deliver(bytes(dgram), addr, settle)
    res = _deliver_direct(main, dgram, addr, iface, watchdog)
    if res == 'hang':
        res = _deliver_direct(main, dgram, addr, iface, watchdog * 2)
    if res == 'hang':
        return res
    if not quiesce(settle):
        return 'stuck'
    return res


def _deliver_direct(main, dgram, addr, iface, watchdog):
    fired = []

    def alarm(_sig, _frm):
        fired.append(1)
        raise Hang()

    old = signal.signal(signal.SIGALRM, alarm)
    signal.setitimer(signal.ITIMER_REAL, watchdog)
    res = 'ok'
    try:
        try:
            (iface or main._osc_interface)._handle_request(bytes(dgram), addr)
        finally:
            signal.setitimer(signal.ITIMER_REAL, 0)
    except Hang:
        pass
    except BaseException as e:  # recorded, judged by the spec
        res = 'raise:' + type(e).__name__
    finally:
        signal.signal(signal.SIGALRM, old)
    if fired:       # _handle_request swallows every exception, including the watchdog's
        return 'hang'
    return res


class UdpPath:
    """Real UDP loopback.  One sending socket per symbolic sender (host id, port): port 1 / 2 = the same port NUMBER
    as the library's main / extra interface (bound on another loopback address: 127.0.0.2, 127.0.0.3 need no
    configuration on Linux), any other symbolic port = an ephemeral one.  A sentinel message from a well-behaved
    socket, seen by a raw receive function (not a responder, so invisible to the dispatch model), marks "processed":
    if it never arrives the library's receive thread no longer processes datagrams."""
    SENTINEL = b'/verif_sentinel\0,\0\0\0'

    def __init__(self, main, hosts, libports):
        import socket
        self.socket = socket
        self.main = main
        self.hosts = hosts
        self.libports = libports        # {1: main port, 2: extra port}
        self.socks = {}
        self.sym = {}            # (host, real port) -> symbolic port
        self.ev = threading.Event()
        self.dead = False
        self.good = self.sock((1, 5009))
        main.add_osc_recv_func(self._sentinel)

    def sock(self, src):
        if src not in self.socks:
            h, p = src
            s = self.socket.socket(self.socket.AF_INET, self.socket.SOCK_DGRAM)
            if p in self.libports and h != 1:
                s.setsockopt(self.socket.SOL_SOCKET, self.socket.SO_REUSEADDR, 1)
                s.bind((self.hosts[h], self.libports[p]))
            else:
                s.bind((self.hosts[h], 0))
            self.socks[src] = s
            self.sym[(self.hosts[h], s.getsockname()[1])] = p
        return self.socks[src]

    def real_port(self, h, p):
        return self.sock((h, p)).getsockname()[1]

    def _sentinel(self, msg, time, addr, port):
        if msg[0] == '/verif_sentinel':
            self.ev.set()

    def deliver(self, dgram, src, settle, port=None):
        if self.dead:
            return 'hang'
        port = port or self.main._osc_interface.port
        self.ev.clear()
        self.sock(tuple(src)).sendto(dgram, ('127.0.0.1', port))
        self.good.sendto(self.SENTINEL, ('127.0.0.1', port))
        if not self.ev.wait(settle):
            self.dead = True        # the receive thread never came back
            return 'hang'
        return 'ok'


# --------------------------------------------------------------------------- projection
def realise(v):
    """abstract value (Osc.tla) -> the Python object a user would pass to sc3"""
    t = v['t']
    if t == 'm':
        return [bytes(v['a']).decode('utf-8')] + [realise(a) for a in v['args']]
    if t == 'B':
        return [realise_time(v['time'])] + [realise(e) for e in v['el']]
    if t == 'i':
        return v['hi'] * 65536 + v['lo']
    if t == 'f':
        if 'd' in v:
            return struct.unpack('>d', bytes(v['d']))[0]
        return struct.unpack('>f', bytes(v['b']))[0]
    if t == 'fbig':
        return 1e39 if v.get('sign', 1) > 0 else -1e39
    if t == 's':
        return 'a' * v['z'] if 'z' in v else bytes(v['b']).decode('utf-8')
    if t == 'b':
        b = bytes(v['z']) if 'z' in v else bytes(v['b'])
        return {'bytearray': bytearray, 'memoryview': memoryview}.get(v.get('py'), bytes)(b)
    if t in ('T', 'F', 'N', 'E'):
        return {'T': True, 'F': False, 'N': None, 'E': []}[t]
    if t in ('[', ']'):
        return t
    if t == 'fn':      # completion message as a function of the server
        ret = v['ret']
        return lambda server: realise(ret)
    if t == 'x':
        return {'dict': {}, 'tuple': (1, 2), 'set': set(), 'complex': 1j, 'intlist': [1, 2],
                'listlist': [[1]], 'object': object()}[v.get('py', 'object')]
    raise AssertionError(v)


def realise_time(T):
    if T['t'] == 'none':
        return None
    if T['t'] == 'neg':
        return -1.0
    return int.from_bytes(bytes(T['b']), 'big') / 2 ** 32


def normalise(v):
    """fill in what the projection computes: float64 -> float32 bits (struct), or 'fbig'"""
    t = v['t']
    if t == 'm':
        return dict(v, args=[normalise(a) for a in v['args']])
    if t == 'B':
        return dict(v, el=[normalise(e) for e in v['el']])
    if t == 'fn':
        return {'t': 'fn', 'ret': normalise(v['ret'])}
    if t == 'f' and 'd' in v:
        x = struct.unpack('>d', bytes(v['d']))[0]
        try:
            return {'t': 'f', 'b': list(struct.pack('>f', x))}
        except OverflowError:
            return {'t': 'fbig'}
    if t == 'b':
        return {k: w for k, w in v.items() if k != 'py'}
    if t == 'x':
        return {'t': 'x'}
    if t == 'fbig':
        return {'t': 'fbig'}
    return v


def lat_bytes(x):
    """latency in seconds -> 32.32 fixed point, 8 bytes (must be exact)"""
    n = Fraction(x) * 2 ** 32
    assert n.denominator == 1 and 0 <= n < 2 ** 64, x
    return list(int(n).to_bytes(8, 'big'))


def project_param(p, out):
    """a decoded parameter (what OscMessage.params holds) -> tokens of Osc.tla"""
    if p is True or p is False:
        out.append({'t': 'o', 'c': 84 if p else 70, 'b': []})
    elif isinstance(p, int):
        out.append({'t': 'i', 'hi': p >> 16, 'lo': p & 0xffff})
    elif isinstance(p, float):
        try:
            out.append({'t': 'f', 'b': list(struct.pack('>f', p))})
        except OverflowError:   # came from a 'd' argument
            out.append({'t': 'o', 'c': 100, 'b': list(struct.pack('>d', p))})
    elif isinstance(p, str):
        out.append({'t': 's', 'b': list(p.encode('utf-8'))})
    elif isinstance(p, (bytes, bytearray, memoryview)):
        out.append({'t': 'b', 'b': list(bytes(p))})
    elif isinstance(p, list):
        out.append({'t': '['})
        for q in p:
            project_param(q, out)
        out.append({'t': ']'})
    elif isinstance(p, tuple):
        out.append({'t': 'o', 'c': 109, 'b': list(p)})
    else:
        out.append({'t': 'o', 'c': 63, 'b': []})
    return out


def project_packet(packet):
    res = []
    for tm in packet.messages:
        toks = []
        for p in tm.message.params:
            project_param(p, toks)
        res.append({'tag': [] if tm.time is None else list(int(tm.time).to_bytes(8, 'big')),
                    'a': list(tm.message.address.encode('utf-8')), 'args': toks})
    return res


# --------------------------------------------------------------------------- independent reader
def osc10_first_address(el):
    """address of the first message inside a bundle element, depth first (None if it is not OSC)"""
    if el.startswith(b'#bundle\0'):
        if len(el) < 16:
            return None
        i = 16
        while i + 4 <= len(el):
            n = struct.unpack('>i', el[i:i + 4])[0]
            i += 4
            if n < 0 or i + n > len(el):
                return None
            a = osc10_first_address(el[i:i + n])
            if a is not None:
                return a
            i += n
        return None
    z = el.find(b'\0')
    if z < 0 or not el.startswith(b'/'):
        return None
    return el[:z].decode('latin-1')


def osc10_elements(dgram):
    """Independent of sc3: for every element directly inside a bundle datagram, in order, the address of the
    message it is (or, for a nested bundle, of the first message inside it; '' for an empty nested bundle).
    Returns None if the datagram is not a well-formed bundle."""
    if not dgram.startswith(b'#bundle\0') or len(dgram) < 16:
        return None
    i, out = 16, []
    while i < len(dgram):
        if i + 4 > len(dgram):
            return None
        n = struct.unpack('>i', dgram[i:i + 4])[0]
        i += 4
        if n < 0 or i + n > len(dgram):
            return None
        el = dgram[i:i + n]
        a = osc10_first_address(el)
        if a is None:
            if not el.startswith(b'#bundle\0'):
                return None
            a = ''
        out.append(a)
        i += n
    return out


def wait_until(pred, timeout=5.0, step=0.002):
    t0 = _time.time()
    while _time.time() - t0 < timeout:
        if pred():
            return True
        _time.sleep(step)
    return pred()
