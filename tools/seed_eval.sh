#!/bin/sh
# usage: tools/seed_eval.sh <seed dir with patch.diff demo.py meta.json> <ID> [tier]
# Confirms a seeded change (applies, demo passes on /repo and fails with the patch, repo suite unchanged) and
# runs the property's check against it in a scratch worktree.  Prints a one-line summary at the end.
set -u
D=$(realpath "$1"); ID=$2; TIER=${3:-quick}
WT=$(mktemp -d /tmp/sc3wt.XXXXXX)
git -C /repo worktree add --detach "$WT" HEAD >/dev/null 2>&1 || exit 3
if ! git -C "$WT" apply "$D/patch.diff"; then echo "SEED $ID $D: patch does not apply"; git -C /repo worktree remove --force "$WT"; exit 3; fi
( cd /tmp && PYTHONPATH=/repo timeout 300 /venv/bin/python -W ignore "$D/demo.py" >/dev/null 2>&1 ); R0=$?
( cd /tmp && PYTHONPATH="$WT" timeout 300 /venv/bin/python -W ignore "$D/demo.py" >/dev/null 2>&1 ); R1=$?
T=$(cd "$WT" && timeout 900 /venv/bin/python -m pytest -q -p no:cacheprovider --timeout=900 --continue-on-collection-errors 2>&1 | tail -1)
cd "$(dirname "$0")/.."
OUT=$(SC3_REPO="$WT" VERIF_SCRATCH=1 ./check "$ID" --tier "$TIER" 2>&1); RC=$?
echo "$OUT" | grep -E "^VIOLATION|^  what|MACHINERY|KNOWN" | head -4 | cut -c1-220
git -C /repo worktree remove --force "$WT"; rm -rf "$WT"
echo "SEED $ID $(basename $D): demo_unpatched=$R0 demo_patched=$R1 pytest='$T' check_rc=$RC"
