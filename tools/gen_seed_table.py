#!/usr/bin/env python3
"""Rewrites the table and the totals line of DESIGN.md section 8 from seeded/*/meta.json."""
import glob
import json
import os
import re

ROOT = os.path.dirname(os.path.dirname(os.path.abspath(__file__)))


def key(path):
    m = re.match(r'C(\d+)-(\d+)', os.path.basename(os.path.dirname(path)))
    return int(m.group(1)), int(m.group(2))


def status(d):
    cr = d.get('check_result', {})
    if cr.get('quick_exit') == 1:
        return 'caught'
    if cr.get('quick_exit_after_follow_up') == 1:
        if 'NOT DECIDED' in cr.get('how', ''):
            return 'first left undecided, caught after the model was extended'
        return 'missed first, caught after the model was extended'
    if 'NOT DECIDED' in cr.get('how', ''):
        return '**not decided** (residue, see below)'
    if cr.get('no_follow_up') and cr.get('caught_by_other_check'):
        return "missed by the property's own check, caught by the check of " + cr['caught_by_other_check'].split(' ')[0] + ('/C02' if 'C02 (' in cr['caught_by_other_check'] else '')
    if cr.get('no_follow_up'):
        return '**missed**, not followed up (end of the time budget; see below)'
    return '**missed** (follow-up pending)'


def clean(s, n):
    return s.replace('|', '/').replace('\n', ' ')[:n]


def main():
    rows, count = [], {}
    for p in sorted(glob.glob(os.path.join(ROOT, 'seeded', '*', 'meta.json')), key=key):
        d = json.load(open(p))
        sid = os.path.basename(os.path.dirname(p))
        st = status(d)
        count[st] = count.get(st, 0) + 1
        rows.append('| %s | %s | %s | %s | %s |' % (sid, d.get('property', sid[:3]), clean(d.get('summary', ''), 130),
                                                  clean(d.get('needs', ''), 100), st))
    n = len(rows)
    caught = count.get('caught', 0)
    ext = sum(v for k, v in count.items() if 'after the model was extended' in k)
    nd = count.get('**not decided** (residue, see below)', 0)
    pend = count.get('**missed** (follow-up pending)', 0)
    nofu = count.get('**missed**, not followed up (end of the time budget; see below)', 0)
    oth = sum(v for k, v in count.items() if k.startswith("missed by the property's own check"))
    totals = ('Totals: %d seeded changes; %d caught; %d missed (or left undecided) first, caught after the model was extended; '
              '%d **not decided** (residue, see below)%s%s.' % (n, caught, ext, nd, '; %d missed, follow-up pending' % pend if pend else '',
                                                                  ('; %d missed by their own check but caught by a neighbouring one' % oth if oth else '') + ('; %d missed in the last round and not followed up' % nofu if nofu else '')))
    path = os.path.join(ROOT, 'DESIGN.md')
    s = open(path).read()
    head = '| seed | property | change (summary) | needs | quick tier |\n|------|----------|------------------|-------|-----------|\n'
    i = s.index(head) + len(head)
    j = s.index('Totals: ', i)
    k = s.index('\n', j)
    s = s[:i] + '\n'.join(rows) + '\n\n' + totals + s[k:]
    open(path, 'w').write(s)
    print(totals)


if __name__ == '__main__':
    main()
