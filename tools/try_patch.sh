#!/bin/sh
# usage: tools/try_patch.sh <patch.diff> <ID> [tier]   - run a check against a scratch worktree of /repo
# (BASE=<commit-ish> selects the base, default /repo HEAD) with the patch applied (outside /repo and /verif); the worktree is removed afterwards.
set -u
PATCH=$(realpath "$1"); ID=$2; TIER=${3:-quick}
WT=$(mktemp -d /tmp/sc3wt.XXXXXX)
git -C /repo worktree add --detach "$WT" "${BASE:-HEAD}" >/dev/null 2>&1 || exit 3
if ! git -C "$WT" apply "$PATCH"; then echo "patch does not apply"; git -C /repo worktree remove --force "$WT"; exit 3; fi
cd "$(dirname "$0")/.."
SC3_REPO="$WT" VERIF_SCRATCH=1 ./check "$ID" --tier "$TIER"
RC=$?
git -C /repo worktree remove --force "$WT"
rm -rf "$WT"
exit $RC
