#!/bin/sh
# usage: tools/selftest.sh <ID>  - every selftest/<ID>/*.diff must make the quick check exit 1 with a VIOLATION line
ID=$1; FAIL=0
cd "$(dirname "$0")/.."
for m in selftest/$ID/*.diff; do
  out=$(tools/try_patch.sh $m $ID 2>&1); rc=$?
  if [ $rc -eq 1 ] && echo "$out" | grep -q "^VIOLATION property=$ID"; then echo "caught   $m"; else echo "MISSED($rc) $m"; FAIL=1; fi
done
exit $FAIL
