#!/usr/bin/env python3
"""Assemble /verif/MANIFEST.json from the MANIFEST dict of every props/<ID>.py and not_applicable.json."""
import importlib
import json
import os
import sys

ROOT = os.path.dirname(os.path.dirname(os.path.abspath(__file__)))
sys.path.insert(0, ROOT)
ids = [json.loads(l)['id'] for l in open(os.path.join(ROOT, 'properties.jsonl'))]
checks, na, engines = [], [], {}
try:
    na_reasons = json.load(open(os.path.join(ROOT, 'not_applicable.json')))
except FileNotFoundError:
    na_reasons = {}
claimed = set(json.load(open(os.path.join(ROOT, 'claimed.json'))))
for pid in ids:
    path = os.path.join(ROOT, 'props', pid + '.py')
    m = None
    if os.path.exists(path) and pid not in na_reasons and pid in claimed:
        mod = importlib.import_module('props.' + pid)
        m = getattr(mod, 'MANIFEST', None)
    if not m:
        na.append(dict(property_id=pid, reason=na_reasons.get(pid, 'check under construction in this round (see DESIGN.md section 3 for the plan); not yet claimed')))
        continue
    checks.append(dict(
        property_id=pid,
        quick_cmd='./check %s --tier quick' % pid,
        thorough_cmd='./check %s --tier thorough' % pid,
        evidence_file='/verif/evidence/%s.json' % pid,
        replay_cmd_template='./check %s --replay {path}' % pid,
        engine=m.get('engine', pid),
        level_claimed=dict(category=m['category'], text=m['text'], design_ref=m.get('design_ref', 'DESIGN.md section 3 / ' + pid)),
        level_note=m['note'],
        technique=m['technique']))
    for e in m.get('engine', pid).split(','):
        engines.setdefault(e.strip(), []).append(pid)
hooks_commits = []
try:
    hooks_commits = json.load(open(os.path.join(ROOT, 'hooks.json')))['source_commits']
except FileNotFoundError:
    pass
man = dict(
    version=1,
    setup_cmd='./setup.sh',
    hooks=dict(guard='SC3_VERIF', enable='no source hooks are needed: harness patches module globals at run time (DESIGN.md 2.3); SC3_VERIF=1 is reserved',
               baseline_off_cmd='cd /repo && /venv/bin/python -m pytest -ra -q -p no:cacheprovider --timeout=900 --continue-on-collection-errors',
               source_commits=hooks_commits, add_only=True),
    engines=[dict(name=k, path='/verif/spec/%s.tla' % k, serves_properties=v, kind_free_text='TLA+ specification checked by TLC; bound to sc3 by trace validation / behaviour replay') for k, v in sorted(engines.items())],
    checks=checks,
    notes='Every check: ./check <ID> --tier quick|thorough. Specs in /verif/spec, drivers in /verif/drivers, per-property logic in /verif/props. Known findings: /verif/known_findings.json.',
    not_applicable=na)
json.dump(man, open(os.path.join(ROOT, 'MANIFEST.json'), 'w'), indent=1)
print('checks:', [c['property_id'] for c in checks], 'not claimed:', [n['property_id'] for n in na])
